"""E7: thin main module that calls phyclone.run.run under a chosen CPU affinity and per-chain delay script.

Chains are started with the *spawn* context, so worker processes re-import this main module; the delay wrapper installed
at module top level is therefore active in the workers too -- no hook in the repository.
usage: python -m vp.runchain '<json kwargs for phyclone.run.run>'   (env: VP_DELAYS='{"0":[start,end],...}', VP_AFF='0,1')
"""
import functools
import json
import os
import sys
import time

# CPU affinity is applied BEFORE phyclone (and numba) are imported, as `taskset` would: libraries size their thread
# pools from the usable cores at import time
if os.environ.get("VP_AFF"):
    os.sched_setaffinity(0, {int(x) for x in os.environ["VP_AFF"].split(",")})

import phyclone.run as pr  # noqa: E402

_delays = json.loads(os.environ.get("VP_DELAYS", "{}") or "{}")
if _delays:
    _orig = pr.run_phyclone_chain

    @functools.wraps(_orig)
    def run_phyclone_chain(*a, **k):
        chain = a[16]
        d = _delays.get(str(chain), [0, 0])
        time.sleep(d[0])
        r = _orig(*a, **k)
        time.sleep(d[1])
        return r

    pr.run_phyclone_chain = run_phyclone_chain

if __name__ == "__main__":
    aff = os.environ.get("VP_AFF")
    if aff:
        os.sched_setaffinity(0, {int(x) for x in aff.split(",")})
    kw = json.loads(sys.argv[1])
    if kw.get("max_time") == "inf":
        kw["max_time"] = float("inf")
    pr.run(**kw)
