"""E4: edit programs over the real Tree and a tiny model, in the grammar the samplers use.

A *program* is plain data: a list of ops [name, a, b, c] with integer selectors that are interpreted against
the current state (pick = list[sel % len(list)]); an op whose precondition does not hold is skipped and counted.
This is the model-based / stateful testing pattern with the program as one shrinkable value; replay needs no
Hypothesis.  Preconditions are those of DESIGN.md section 4 (implicit contracts of the callers).
"""
from __future__ import annotations

import pickle

import numpy as np
from hypothesis import strategies as st

from vp import gen
from vp.common import HarnessError, Violation, crash_violation
from vp.model import MTree, from_tree, to_tree_grid

PLACE_OPS = ("add_root_clone", "new_clone", "new_clone_then_add", "add_outlier")
EDIT_OPS = (
    "move_point",
    "prune_regraft",
    "subtree_cycle",
    "relabel",
    "copy",
    "dict_roundtrip",
    "pickle_roundtrip",
    "holder_roundtrip",
    "full_update",
    "snapshot",
    "extract",
    "sampler",
    "fork",
)
SAMPLER_KINDS = ("pg", "subtree", "dp", "prg", "burnin")


@st.composite
def st_program(draw, max_points=6, max_edits=30, samplers=True, forks=False, sampler_heavy=False, big=False):
    n = draw(st.integers(3, max_points + 1)) if sampler_heavy else draw(st.integers(1, max_points))
    if big:
        n = draw(st.integers(26, 32))  # clones holding more than two dozen data points
    ops = []
    sel = st.integers(0, 1 << 16)
    n_place = n
    edits = [e for e in EDIT_OPS if (samplers or e != "sampler") and (forks or e != "fork")]
    if not big and n >= 2 and draw(st.integers(0, 4)) == 0:
        # chain start as in run.py: every (or the first few) data point(s) in one clone built from a caller-owned list
        ops.append(["single_start", draw(sel), draw(sel), draw(sel)])
    # placement phase interleaved with representation changes (as particles are copied / serialised between steps)
    for _ in range(n_place):
        if big:
            # nearly all points go into the first top-level clone, so that one clone ends up with > 24 data points
            kind = draw(st.sampled_from(["add_root_clone"] * 9 + ["new_clone"]))
            ops.append([kind, 0 if kind == "add_root_clone" else draw(sel), draw(sel), draw(sel)])
        elif sampler_heavy and len(ops) % 2 == 0:
            # deep chains: every other placement puts a new clone above ALL current top-level clones, so the real sampler
            # moves that follow see three and more nested clones (moves between a clone and its grandchildren)
            ops.append([draw(st.sampled_from(["new_clone", "new_clone_then_add"])), 0xFFFF, draw(sel), draw(sel)])
        else:
            ops.append([draw(st.sampled_from(PLACE_OPS)), draw(sel), draw(sel), draw(sel)])
        if draw(st.integers(0, 3)) == 0:
            ops.append([draw(st.sampled_from(["copy", "dict_roundtrip", "holder_roundtrip", "snapshot", "pickle_roundtrip"] + (["fork"] if forks else []))), draw(sel), 0, 0])
    m = draw(st.integers(0, max_edits))
    if sampler_heavy:
        # mostly real sampler invocations (data-point, prune-regraft, PG, subtree, burn-in) on a larger tree
        edits = ["sampler", "sampler", "sampler", "relabel", "move_point", "prune_regraft"]
        m = draw(st.integers(4, max(5, max_edits // 2)))
    for _ in range(m):
        ops.append([draw(st.sampled_from(edits)), draw(sel), draw(sel), draw(sel)])
    return dict(
        n=n,
        ops=ops,
        dims=draw(st.sampled_from([2, 3])) if big else draw(st.sampled_from([1, 2])),
        G=draw(st.sampled_from([4, 3, 7, 12])),
        values=draw(gen.st_values_spec(regimes=("moderate", "ties", "flat"), max_scale=0.5 if big else 2.0)),
        outlier_prior=draw(st.sampled_from([0.0, 0.1, 0.3])),
        alpha=draw(st.sampled_from([1.0, 0.4, 3.0])),
        proposal=draw(st.sampled_from(["fully", "semi", "bootstrap"])),
    )


class _InjectedFault(ValueError):
    pass


class _FaultyGenerator(np.random.Generator):
    """default_rng(seed) whose `at`-th multinomial call fails the way numpy does for NaN weights (ValueError)"""

    def __init__(self, seed, at):
        super().__init__(np.random.PCG64(seed))
        self._at = at
        self._n = 0
        self.fired = False

    def multinomial(self, n, pvals, size=None):
        self._n += 1
        if self._n - 1 == self._at:
            self.fired = True
            raise _InjectedFault("pvals < 0, pvals > 1 or pvals contains NaNs (injected)")
        return super().multinomial(n, pvals, size=size)


class Model:
    """clone ids are stable ints; names in the real tree are resolved by data content"""

    def __init__(self):
        self.blocks = {}
        self.parent = {}
        self.outliers = []
        self._next = 0

    def new(self, pts, parent=None):
        c = self._next
        self._next += 1
        self.blocks[c] = list(pts)
        self.parent[c] = parent
        return c

    def clones(self):
        return sorted(self.blocks, key=lambda c: min(self.blocks[c]))

    def roots(self):
        return [c for c in self.clones() if self.parent[c] is None]

    def children(self, c):
        return [x for x in self.clones() if self.parent[x] == c]

    def descendants(self, c):
        out = []
        for x in self.children(c):
            out.append(x)
            out.extend(self.descendants(x))
        return out

    def to_mtree(self):
        cl = self.clones()
        idx = {c: i for i, c in enumerate(cl)}
        return MTree([sorted(self.blocks[c]) for c in cl], [(-1 if self.parent[c] is None else idx[self.parent[c]]) for c in cl], sorted(self.outliers))

    @staticmethod
    def from_mtree(mt: MTree):
        m = Model()
        ids = [m.new(b) for b in mt.blocks]
        for i, c in enumerate(ids):
            m.parent[c] = None if mt.parent[i] == -1 else ids[mt.parent[i]]
        m.outliers = list(mt.outliers)
        return m

    def all_points(self):
        s = list(self.outliers)
        for b in self.blocks.values():
            s.extend(b)
        return sorted(s)

    def copy(self):
        m = Model()
        m.blocks = {k: list(v) for k, v in self.blocks.items()}
        m.parent = dict(self.parent)
        m.outliers = list(self.outliers)
        m._next = self._next
        return m


def name_of(tree, model, c):
    labels = tree.labels
    d = min(model.blocks[c])
    if d not in labels:
        raise Violation("structure/data-lost", "data point %d was placed in a clone by the edits so far but the tree's labels do not list it (labels cover %r)" % (d, sorted(labels)), dict())
    return labels[d]


class Machine:
    def __init__(self, case, on_step=None, probe=None):
        from phyclone.smc.utils import RootPermutationDistribution
        from phyclone.tree import FSCRPDistribution, Tree, TreeJointDistribution

        gen.clear_caches()
        self.case = case
        n, dims, G = case["n"], case["dims"], case["G"]
        vs = case["values"]
        self.grid = (dims, G)
        self.values = gen.make_values(n, dims, G, vs["seed"], vs["regime"], vs["scale"])
        self.data = gen.make_datapoints(self.values, outlier_prior=case.get("outlier_prior", 0.0))
        self.td = TreeJointDistribution(FSCRPDistribution(case.get("alpha", 1.0)))
        self.perm = RootPermutationDistribution()
        self.tree = Tree(self.grid)
        self.twin = None  # C15: round-tripped copy that receives the same edits
        self.twin_kind = None
        self.model = Model()
        self.unplaced = list(range(n))
        self.applied = []
        self.skipped = 0
        self.classes = set()
        self.on_step = on_step
        self.caller_lists = []  # (label, list object handed to the Tree API, its contents at that time)
        self.ghosts = []  # (label, tree restored from a snapshot and never edited, snapshot dict, model at that time)
        self.probe = probe  # called on intermediate states inside an edit: probe(machine, tree, partial_model, label)
        self.removal_seen = False
        self.edit_after_removal = False
        self.fork_after_prune = False
        self.edits_after_fork = 0

    # ------------------------------------------------------------------
    def run(self):
        for i, op in enumerate(self.case["ops"]):
            name, a, b, c = op
            try:
                ok = getattr(self, "op_" + name)(a, b, c)
            except (Violation, HarnessError):
                raise
            except Exception as e:
                from vp.common import phyclone_frame

                if phyclone_frame(e) is None:
                    # the harness tripped while reading the tree (e.g. a label lookup): if the tree the previous steps
                    # produced no longer matches the model structurally, THAT is the finding; otherwise a harness bug
                    for t in (self.tree, self.twin):
                        if t is not None:
                            structural_invariants(t, self.model, where="before step %d (%s), found when the edit could not read the tree" % (i, name))
                raise crash_violation("edit/" + name, e, dict(op=name, step=i))
            if ok:
                if self.removal_seen and name not in ("copy",):
                    self.edit_after_removal = True
                if name in ("move_point", "prune_regraft", "subtree_cycle"):
                    self.removal_seen = True
                if self.twin is not None and name != "fork":
                    self.edits_after_fork += 1
                self.applied.append(name)
                if self.on_step is not None:
                    try:
                        self.on_step(self, i, name)
                    except (Violation, HarnessError):
                        raise
                    except Exception as e:
                        from vp.common import phyclone_frame

                        if phyclone_frame(e) is None:
                            raise  # pure harness bug -> exit 2
                        # the code under test cannot even read back the tree it produced
                        raise crash_violation("unreadable-after/" + name, e, dict(op=name, step=i))
            else:
                self.skipped += 1
        return self

    def _both(self, fn):
        """apply the same edit to the primary tree and (if present) the round-tripped twin"""
        new_twin = None
        if self.twin is not None:
            new_twin = fn(self.twin)
        self.tree = fn(self.tree)
        if self.twin is not None:
            self.twin = new_twin

    def _contiguous(self, tree):
        return sorted(tree.nodes) == list(range(len(tree.nodes)))

    # ------------------------------------------------------------------ placement (SMC grammar)
    def op_single_start(self, a, b, c):
        from phyclone.tree import Tree

        if self.model.blocks or self.model.outliers or self.twin is not None or len(self.unplaced) < 2:
            return False
        k = len(self.unplaced) if a % 2 == 0 else 2 + (a // 2) % (len(self.unplaced) - 1)
        pts = self.unplaced[:k]
        self.unplaced = self.unplaced[k:]
        lst = [self.data[d] for d in pts]
        self.tree = Tree.get_single_node_tree(lst)
        self.caller_lists.append(("get_single_node_tree", lst, list(lst)))
        self.model.new(pts)
        self.classes.add("single-node-start-from-caller-list")
        return True

    def op_add_root_clone(self, a, b, c):
        roots = self.model.roots()
        if not self.unplaced or not roots:
            return False
        d = self.unplaced.pop(0)
        cl = roots[a % len(roots)]
        inplace = b % 3 == 0  # in-place edits are legitimate API use (the subtree sampler and relabel work in place)
        if inplace:
            self.classes.add("in-place-edit")

        def fn(t):
            t = t if inplace else t.copy()
            t.add_data_point_to_node(self.data[d], name_of(t, self.model, cl))
            return t

        self._both(fn)
        self.model.blocks[cl].append(d)
        return True

    def _new_clone(self, a, then_add):
        if not self.unplaced or not self._contiguous(self.tree) or (self.twin is not None and not self._contiguous(self.twin)):
            return False
        d = self.unplaced.pop(0)
        roots = self.model.roots()
        kids = [r for i, r in enumerate(roots) if (a >> i) & 1]
        if len(roots) >= 3:
            self.classes.add("new-clone-over-%d-of-%d" % (len(kids), len(roots)))

        def fn(t):
            t = t.copy()
            ch = [name_of(t, self.model, k) for k in kids]
            if then_add:
                node = t.create_root_node(children=ch)
                t.add_data_point_to_node(self.data[d], node)
            else:
                lst = [self.data[d]]
                t.create_root_node(children=ch, data=lst)
                self.caller_lists.append(("create_root_node", lst, list(lst)))
            return t

        self._both(fn)
        cl = self.model.new([d])
        for k in kids:
            self.model.parent[k] = cl
        return True

    def op_new_clone(self, a, b, c):
        return self._new_clone(a, False)

    def op_new_clone_then_add(self, a, b, c):
        return self._new_clone(a, True)

    def op_add_outlier(self, a, b, c):
        if not self.unplaced or self.case.get("outlier_prior", 0.0) == 0.0 and a % 4 != 0:
            return False
        d = self.unplaced.pop(0)
        inplace = b % 3 == 0
        if inplace:
            self.classes.add("in-place-edit")

        def fn(t):
            t = t if inplace else t.copy()
            t.add_data_point_to_outliers(self.data[d])
            return t

        self._both(fn)
        self.model.outliers.append(d)
        return True

    # ------------------------------------------------------------------ Gibbs data-point move
    def op_move_point(self, a, b, c):
        cands = [(d, cl) for cl in self.model.clones() if len(self.model.blocks[cl]) > 1 for d in self.model.blocks[cl]]
        cands += [(d, None) for d in self.model.outliers]
        if not cands:
            return False
        d, src = cands[a % len(cands)]
        dests = list(self.model.clones()) + [None]
        dst = dests[b % len(dests)]
        if src is None:
            self.classes.add("move-out-of-outliers")

        partial = self.model.copy()
        if src is None:
            partial.outliers.remove(d)
        else:
            partial.blocks[src].remove(d)
        via_outlier_api = src is None and c % 2 == 1  # the subtree sampler removes outliers through this entry point

        inplace = c % 3 == 0
        if inplace:
            self.classes.add("in-place-edit")

        def fn(t):
            t = t if inplace else t.copy()
            if self.probe is not None:
                self.probe(self, t, self.model, "before-remove")
            old = -1 if src is None else name_of(t, self.model, src)
            new = None if dst is None else name_of(t, self.model, dst)  # resolve before removal
            if via_outlier_api:
                t.remove_data_point_from_outliers(self.data[d])
            else:
                t.remove_data_point_from_node(self.data[d], old)
            if self.probe is not None:
                self.probe(self, t, partial, "after-remove")
            if dst is None:
                t.add_data_point_to_outliers(self.data[d])
            else:
                t.add_data_point_to_node(self.data[d], new)
            return t

        if dst is not None and dst == src:
            # destination equals source: name must be resolved through another point of the clone
            other = [x for x in self.model.blocks[src] if x != d]

            def fn(t):  # noqa: F811
                t = t if inplace else t.copy()
                nm = t.labels[other[0]]
                t.remove_data_point_from_node(self.data[d], nm)
                t.add_data_point_to_node(self.data[d], nm)
                return t

        self._both(fn)
        if src is None:
            self.model.outliers.remove(d)
        else:
            self.model.blocks[src].remove(d)
        if dst is None:
            self.model.outliers.append(d)
        else:
            self.model.blocks[dst].append(d)
        return True

    # ------------------------------------------------------------------ prune / regraft
    def op_prune_regraft(self, a, b, c):
        cl = self.model.clones()
        if len(cl) <= 1:
            return False
        sub = cl[a % len(cl)]
        removed = [sub] + self.model.descendants(sub)
        remaining = [x for x in cl if x not in removed]
        if not remaining:
            return False
        targets = remaining + [None]
        par = targets[b % len(targets)]
        if par is None:
            self.classes.add("graft-under-root")

        partial = self.model.copy()
        for x in removed:
            del partial.blocks[x]
            del partial.parent[x]
        par2 = targets[(b + 1 + c) % len(targets)]
        ghost_box = []

        def fn(t):
            pruned = t.copy()
            sroot = name_of(pruned, self.model, sub)
            parent_name = None if par is None else name_of(pruned, self.model, par)
            parent2_name = None if par2 is None else name_of(pruned, self.model, par2)
            subtree = pruned.get_subtree(sroot)
            pruned.remove_subtree(subtree)
            if self.probe is not None:
                self.probe(self, pruned, partial, "after-remove_subtree")
            if set(subtree.nodes) & set(pruned.nodes):
                self.classes.add("graft-with-label-clash")
            new = pruned.copy()
            new.add_subtree(subtree, parent=parent_name)
            new.update()
            if t is self.tree and par2 != par:
                # the prune-regraft sampler grafts the SAME subtree object into every candidate tree
                other = pruned.copy()
                other.add_subtree(subtree, parent=parent2_name)
                other.update()
                ghost_box.append(other)
            return new

        self._both(fn)
        self.model.parent[sub] = par
        if ghost_box:
            gm = self.model.copy()
            gm.parent[sub] = par2
            self.ghosts.append(("second-candidate-of-the-same-regraft", ghost_box[0], None, gm))
            if len(self.ghosts) > 3:
                self.ghosts.pop(0)
            self.classes.add("ghost-restores")
        self.classes.add("prune")
        if self.twin is not None:
            pass
        return True

    # ------------------------------------------------------------------ subtree-sampler cycle
    def op_subtree_cycle(self, a, b, c):
        cl = self.model.clones()
        if not cl:
            return False
        child = cl[a % len(cl)]
        sroot = self.model.parent[child]  # None == virtual root
        region = list(cl) if sroot is None else [sroot] + self.model.descendants(sroot)
        attach = None if sroot is None else self.model.parent[sroot]
        pts = sorted(p for x in region for p in self.model.blocks[x]) + sorted(self.model.outliers)
        # a fresh forest over the same data, shape derived from the selectors (deterministic function of b, c)
        r = np.random.default_rng([b, c])
        n_out = int(r.integers(0, min(2, len(pts) - 1) + 1)) if self.case.get("outlier_prior", 0.0) > 0 and len(pts) > 1 else 0
        perm = list(r.permutation(len(pts)))
        outs = [pts[i] for i in perm[:n_out]]
        rest = [pts[i] for i in perm[n_out:]]
        blocks = []
        for p in rest:
            j = int(r.integers(0, len(blocks) + 1))
            if j == len(blocks):
                blocks.append([p])
            else:
                blocks[j].append(p)
        parent = [int(r.integers(-1, j)) for j in range(len(blocks))]
        fm = MTree(blocks, parent, outs)
        ctx_model = self.model.copy()
        for x in region:
            del ctx_model.blocks[x]
            del ctx_model.parent[x]
        ctx_model.outliers = []

        def fn(t):
            t = t.copy()
            child_name = name_of(t, self.model, child)
            sr = t.get_parent(child_name)
            par = t.get_parent(sr)
            subtree = t.get_subtree(sr)
            t.remove_subtree(subtree)
            for dp in t.outliers:
                t.remove_data_point_from_outliers(dp)
                subtree.add_data_point_to_outliers(dp)
            got = sorted(dp.idx for dp in subtree.data)
            if got != sorted(pts):
                raise Violation("subtree-cycle/data", "extracted subtree holds data %r, model says %r" % (got, sorted(pts)), dict(op="subtree_cycle"))
            if self.probe is not None:
                self.probe(self, t, ctx_model, "after-remove_subtree")
            forest = to_tree_grid(fm, self.data, self.grid)
            if c % 2 == 1:
                forest.relabel_nodes()  # any construction history of the replacement is legitimate
                self.classes.add("graft-relabelled-forest")
            if set(forest.nodes) & set(t.nodes):
                self.classes.add("graft-with-label-clash")
            new = t.copy()
            new.add_subtree(forest, parent=par)
            for dp in forest.outliers:
                new.add_data_point_to_outliers(dp)
            new.update()
            return new

        self._both(fn)
        # model update
        for x in region:
            del self.model.blocks[x]
            del self.model.parent[x]
        self.model.outliers = list(outs)
        ids = [self.model.new(bk) for bk in fm.blocks]
        for i, cid in enumerate(ids):
            self.model.parent[cid] = attach if fm.parent[i] == -1 else ids[fm.parent[i]]
        self.classes.add("subtree-cycle" + ("-whole-tree" if sroot is None else ""))
        return True

    # ------------------------------------------------------------------ representation changes
    def op_relabel(self, a, b, c):
        def fn(t):
            t = t.copy()
            t.relabel_nodes()
            return t

        self._both(fn)
        return True

    def op_copy(self, a, b, c):
        self._both(lambda t: t.copy())
        return True

    def op_full_update(self, a, b, c):
        def fn(t):
            t = t.copy()
            t.update()
            return t

        self._both(fn)
        return True

    def _holes(self, t):
        try:
            idxs = sorted(t._graph.node_indices())
            return idxs != list(range(len(idxs)))
        except AttributeError:
            return False

    def op_dict_roundtrip(self, a, b, c):
        from phyclone.tree import Tree

        if self._holes(self.tree):
            self.classes.add("serialise-with-index-holes")
        snap = self.tree.to_dict()
        self._ghost("dict", Tree.from_dict(snap), snap)
        if self.twin is None:
            self.tree = Tree.from_dict(snap)  # the working tree and the ghost are two restores of ONE snapshot
        else:
            self._both(lambda t: Tree.from_dict(t.to_dict()))
        return True

    def op_pickle_roundtrip(self, a, b, c):
        from phyclone.tree import Tree

        if self._holes(self.tree):
            self.classes.add("serialise-with-index-holes")
        self._both(lambda t: Tree.from_dict(pickle.loads(pickle.dumps(t.to_dict(), protocol=pickle.HIGHEST_PROTOCOL))))
        return True

    def _holder_ok(self, t):
        last = t.node_last_added_to
        return last == t.outlier_node_name or last in t.nodes

    def op_holder_roundtrip(self, a, b, c):
        from phyclone.smc.swarm import TreeHolder

        if not self._holder_ok(self.tree) or (self.twin is not None and not self._holder_ok(self.twin)):
            return False
        if self.twin is None:
            holder = TreeHolder(self.tree, self.td, self.perm)
            self._ghost("holder", holder.tree, None)
            self.tree = holder.tree
        else:
            self._both(lambda t: TreeHolder(t, self.td, self.perm).tree)
        return True

    def op_snapshot(self, a, b, c):
        """take a snapshot (as the run loop does for the trace) and keep editing the SAME live tree afterwards"""
        from phyclone.tree import Tree

        snap = self.tree.to_dict()
        self._ghost("trace-entry", Tree.from_dict(snap), snap)
        return True

    def op_extract(self, a, b, c):
        """cut a subtree out as its own tree (get_subtree) and keep it while the host goes on being edited"""
        cl = self.model.clones()
        if not cl:
            return False
        sub = cl[a % len(cl)]
        keep = [sub] + self.model.descendants(sub)
        gm = Model()
        ids = {}
        for x in keep:
            ids[x] = gm.new(self.model.blocks[x])
        for x in keep:
            gm.parent[ids[x]] = None if x == sub else ids[self.model.parent[x]]
        extracted = self.tree.get_subtree(name_of(self.tree, self.model, sub))
        self.ghosts.append(("subtree-extracted-with-get_subtree", extracted, None, gm))
        if len(self.ghosts) > 3:
            self.ghosts.pop(0)
        self.classes.add("ghost-restores")
        return True

    def _ghost(self, label, tree, snap):
        self.ghosts.append((label, tree, snap, self.model.copy()))
        if len(self.ghosts) > 3:
            self.ghosts.pop(0)
        self.classes.add("ghost-restores")

    # ------------------------------------------------------------------ C15: fork a round-tripped twin
    def op_fork(self, a, b, c):
        from phyclone.tree import Tree

        kind = ("dict", "pickle", "gzip")[a % 3]
        t = self.tree
        if kind == "dict":
            tw = Tree.from_dict(t.to_dict())
        elif kind == "pickle":
            tw = Tree.from_dict(pickle.loads(pickle.dumps(t.to_dict(), protocol=pickle.HIGHEST_PROTOCOL)))
        else:
            import gzip
            import io

            buf = io.BytesIO()
            with gzip.GzipFile(fileobj=buf, mode="wb") as f:
                pickle.dump({"tree": t.to_dict()}, f, protocol=pickle.HIGHEST_PROTOCOL)
            buf.seek(0)
            with gzip.GzipFile(fileobj=buf, mode="rb") as f:
                tw = Tree.from_dict(pickle.load(f)["tree"])
        self.twin = tw
        self.twin_kind = kind
        self.edits_after_fork = 0
        if "prune" in self.classes:
            self.fork_after_prune = True
        if self._holes(t):
            self.classes.add("fork-with-index-holes")
        if len(self.model.blocks) == 0 and self.model.outliers:
            self.classes.add("fork-outlier-only-tree")
        return True

    # ------------------------------------------------------------------ real samplers (plain seeded numpy generator)
    def op_sampler(self, a, b, c):
        from phyclone.mcmc import DataPointSampler, ParticleGibbsSubtreeSampler, ParticleGibbsTreeSampler, PruneRegraphSampler
        from phyclone.smc.samplers import UnconditionalSMCSampler
        from vp.exact import kernel_class

        if self.unplaced or not self.model.all_points() or self.twin is not None:
            return False
        kind = SAMPLER_KINDS[a % len(SAMPLER_KINDS)]
        out = self.case.get("outlier_prior", 0.0) > 0
        if self.model.outliers and not out:
            return False
        fault_at = (c // 3) % 9 if (c // 3) % 2 == 1 else None
        rng = np.random.default_rng(b) if fault_at is None else _FaultyGenerator(b, fault_at)
        kernel = kernel_class(self.case.get("proposal", "fully"))(self.td, rng, outlier_proposal_prob=0.1 if out else 0.0, perm_dist=self.perm)
        N = 2 + c % 3
        if kind == "pg":
            s = ParticleGibbsTreeSampler(kernel, rng, num_particles=N, resample_threshold=0.5)
        elif kind == "subtree":
            s = ParticleGibbsSubtreeSampler(kernel, rng, num_particles=N, resample_threshold=0.5)
        elif kind == "dp":
            s = DataPointSampler(self.td, rng, outliers=out)
        elif kind == "prg":
            s = PruneRegraphSampler(self.td, rng)
        else:
            s = UnconditionalSMCSampler(kernel, num_particles=N, resample_threshold=0.5)
        before = self.model.all_points()
        gen.clear_caches()
        t = self.tree.copy()
        try:
            new = s.sample_tree(t)
        except _InjectedFault:
            # a draw failed inside the sampler and the failure was reported to the caller: no tree was returned
            self.classes.add("sampler:injected-draw-failure-propagated")
            return False
        if fault_at is not None and getattr(rng, "fired", False):
            self.classes.add("sampler:returned-despite-injected-draw-failure")
        got = sorted(dp.idx for dp in new.data)
        if got != before:
            raise Violation("sampler/%s/data" % kind, "%s sampler was given data %r and returned a tree over %r" % (kind, before, got), dict(op="sampler", kind=kind))
        if not out and new.outliers:
            raise Violation("sampler/%s/outliers" % kind, "%s sampler produced outliers with outlier modelling off" % kind, dict(op="sampler", kind=kind))
        self.tree = new
        self.model = Model.from_mtree(from_tree(new))
        self.classes.add("sampler:" + kind)
        return True


# ---------------------------------------------------------------------------
# invariants


def structural_invariants(tree, model: Model, where=""):
    """C07: well-formed forest, consistent views, data conserved, structure equals the model's."""
    mt = model.to_mtree()
    tags = dict(where=where)
    try:
        g = tree._graph
        ni = tree._node_indices
        nir = tree._node_indices_rev
        internals = True
    except AttributeError:
        internals = False
    if internals:
        live = set(g.node_indices())
        if set(nir.keys()) != live:
            raise Violation("structure/index-maps", "%s: position->name map covers %r but live graph positions are %r" % (where, sorted(nir.keys()), sorted(live)), tags)
        if {v: k for k, v in ni.items()} != dict(nir):
            raise Violation("structure/index-maps", "%s: name->position and position->name maps are not inverse (%r vs %r)" % (where, ni, nir), tags)
        root_idx = ni.get("root")
        if root_idx is None:
            raise Violation("structure/root", "%s: no virtual root" % where, tags)
        if g.in_degree(root_idx) != 0:
            raise Violation("structure/root", "%s: virtual root has a parent" % where, tags)
        import rustworkx as rx

        reach = set(rx.descendants(g, root_idx)) | {root_idx}
        for idx in live:
            payload = g[idx]
            if payload.node_id != nir[idx]:
                raise Violation("structure/payload-name", "%s: node at position %d is named %r in its payload but %r in the map" % (where, idx, payload.node_id, nir[idx]), tags)
            if idx != root_idx:
                if g.in_degree(idx) != 1:
                    raise Violation("structure/in-degree", "%s: clone %r has %d parents" % (where, nir[idx], g.in_degree(idx)), tags)
                if idx not in reach:
                    raise Violation("structure/unreachable", "%s: clone %r is not reachable from the root" % (where, nir[idx]), tags)
                own = {dp.idx for dp in tree._data.get(nir[idx], [])}
                if own != set(payload.data_points):
                    raise Violation("structure/data-views", "%s: clone %r holds %r in the tree's data map but %r in its payload" % (where, nir[idx], sorted(own), sorted(payload.data_points)), tags)
        names = set(ni.keys())
        for k, v in tree._data.items():
            if len(v) > 0 and k not in names and k != tree.outlier_node_name:
                raise Violation("structure/dead-name-data", "%s: data %r listed under %r which is not a node" % (where, [dp.idx for dp in v], k), tags)
        if len(set(tree.nodes)) != len(tree.nodes):
            raise Violation("structure/duplicate-names", "%s: duplicate clone names %r" % (where, tree.nodes), tags)
    # public views
    pts = [dp.idx for dp in tree.data]
    if sorted(pts) != mt.all_data() or len(set(pts)) != len(pts):
        raise Violation("data/conservation", "%s: tree holds data %r, expected exactly %r" % (where, sorted(pts), mt.all_data()), tags)
    real = from_tree(tree)
    if real.key() != mt.key():
        raise Violation("structure/model-mismatch", "%s: tree is %r, model says %r" % (where, real, mt), tags)
    if tree.get_clades() != mt.clades():
        raise Violation("structure/clades", "%s: get_clades %r, model %r" % (where, tree.get_clades(), mt.clades()), tags)
    if sorted(dp.idx for dp in tree.outliers) != sorted(mt.outliers):
        raise Violation("structure/outliers", "%s: outliers %r, model %r" % (where, sorted(dp.idx for dp in tree.outliers), mt.outliers), tags)
    lab = tree.labels
    if sorted(lab.keys()) != mt.all_data():
        raise Violation("structure/labels", "%s: labels cover %r, data are %r" % (where, sorted(lab.keys()), mt.all_data()), tags)
    for d in mt.outliers:
        if lab[d] != tree.outlier_node_name:
            raise Violation("structure/labels", "%s: outlier %d labelled %r" % (where, d, lab[d]), tags)
    if len(tree.roots) != len(mt.roots()) or tree.get_number_of_nodes() != mt.k:
        raise Violation("structure/counts", "%s: %d roots / %d nodes, model %d / %d" % (where, len(tree.roots), tree.get_number_of_nodes(), len(mt.roots()), mt.k), tags)
    return mt


def node_arrays(tree):
    """name -> (log_p, log_r) copies, plus 'root'"""
    out = {}
    for name, idx in tree._node_indices.items():
        p = tree._graph[idx]
        out[name] = (np.array(p.log_p, dtype=float), np.array(p.log_r, dtype=float))
    return out


def compare_with_rebuild(machine: Machine, tree, mt: MTree, tol=1e-8, where=""):
    """C06: cached vectors and joint densities equal those of a freshly built tree with the same shape/assignment."""
    fresh = to_tree_grid(mt, machine.data, machine.grid)
    tags = dict(where=where)
    fa = node_arrays(fresh)
    ta = node_arrays(tree)
    by_content_f = {frozenset(dp.idx for dp in fresh.get_data(n)): n for n in fresh.nodes}
    by_content_t = {frozenset(dp.idx for dp in tree.get_data(n)): n for n in tree.nodes}
    if set(by_content_f) != set(by_content_t):
        raise Violation("stale/assignment", "%s: the tree's clones hold %r but the expected assignment is %r, so its cached vectors cannot be those of that assignment" % (where, sorted(sorted(c) for c in by_content_t), sorted(sorted(c) for c in by_content_f)), tags)
    worst = 0.0
    for content, fn in by_content_f.items():
        tn = by_content_t[content]
        for j, nm in enumerate(("log_p", "log_r")):
            d = float(np.max(np.abs(ta[tn][j] - fa[fn][j])))
            worst = max(worst, d)
            if not d <= tol:
                raise Violation("stale/%s" % nm, "%s: clone %s holds %s differing from a fresh rebuild by %.3e (tree %r)" % (where, sorted(content), nm, d, mt), dict(tags, vec=nm))
    if mt.k > 0:
        d = float(np.max(np.abs(ta["root"][1] - fa["root"][1])))
        worst = max(worst, d)
        if not d <= tol:
            raise Violation("stale/root", "%s: root likelihood vector differs from a fresh rebuild by %.3e (tree %r)" % (where, d, mt), tags)
    for nm, f in (("log_p", machine.td.log_p), ("log_p_one", machine.td.log_p_one)):
        a, b = float(f(tree)), float(f(fresh))
        if not abs(a - b) <= tol * max(1.0, abs(b)):
            raise Violation("stale/density-%s" % nm, "%s: %s=%.12g, fresh rebuild %.12g (tree %r)" % (where, nm, a, b, mt), tags)
    return worst


def check_ghosts(machine, where, structural=True, values=False):
    """Trees restored earlier from a snapshot (and never edited since) and the snapshots themselves must be unaffected
    by later edits of other restores / of the tree the snapshot was taken from (no aliasing of per-clone data lists)."""
    from phyclone.tree import Tree

    for label, lst, orig in machine.caller_lists:
        # run.py hands its data list to Tree.get_single_node_tree and keeps using it (results["data"]); the kernels pass
        # lists to create_root_node: later edits of the tree must not reach into the caller's list
        if len(lst) != len(orig) or any(x is not y for x, y in zip(lst, orig)):
            raise Violation("aliasing/caller-list", "%s: the list passed to %s earlier was changed by a later tree edit: now holds data points %r, held %r" % (where, label, [dp.idx for dp in lst], [dp.idx for dp in orig]), dict(api=label))
    for label, ghost, snap, model in machine.ghosts:
        w = "%s: tree restored earlier from a %s snapshot and not edited since" % (where, label)
        try:
            if structural:
                mt = structural_invariants(ghost, model, where=w)
            else:
                mt = model.to_mtree()
            if values:
                compare_with_rebuild(machine, ghost, mt, where=w)
            if snap is not None:
                again = Tree.from_dict(snap)
                w2 = "%s: snapshot dict taken earlier, restored now" % where
                if structural:
                    structural_invariants(again, model, where=w2)
                if values:
                    compare_with_rebuild(machine, again, mt, where=w2)
        except Violation as v:
            raise Violation("aliasing/" + v.component, v.message, dict(v.tags, aliasing=True))
