"""E2: independent model of clone trees and the oracles written from the property text.

Nothing here imports phyclone's recursion, densities or permutation code.  `to_tree`
(at the bottom) is the only bridge: it builds a real `phyclone.tree.Tree` through the
public editing API from an `MTree`.
"""
from __future__ import annotations

import itertools
import math

import numpy as np
from scipy.special import logsumexp

C_CONST = 1000.0  # the "1/1000 per additional top-level clone" of C03


class MTree:
    """blocks[i] = tuple of data indices in clone i (may be empty), parent[i] in {-1,0..k-1}, outliers."""

    __slots__ = ("blocks", "parent", "outliers")

    def __init__(self, blocks, parent, outliers=()):
        self.blocks = [tuple(b) for b in blocks]
        self.parent = list(parent)
        self.outliers = tuple(outliers)
        assert len(self.blocks) == len(self.parent)

    # -- structure
    @property
    def k(self):
        return len(self.blocks)

    def children(self, i):
        return [c for c in range(self.k) if self.parent[c] == i]

    def roots(self):
        return self.children(-1)

    def descendants(self, i):
        out = []
        for c in self.children(i):
            out.append(c)
            out.extend(self.descendants(c))
        return out

    def subtree_data(self, i):
        s = set(self.blocks[i])
        for d in self.descendants(i):
            s |= set(self.blocks[d])
        return frozenset(s)

    def clades(self):
        return frozenset(self.subtree_data(i) for i in range(self.k))

    def clade_list(self):
        return [self.subtree_data(i) for i in range(self.k)]

    def key(self):
        return (self.clades(), frozenset(self.outliers))

    def jkey(self):
        return [sorted(sorted(c) for c in self.clades()), sorted(self.outliers)]

    def depth(self, i):
        d = 0
        while self.parent[i] != -1:
            i = self.parent[i]
            d += 1
        return d

    def postorder(self):
        out = []

        def rec(i):
            for c in self.children(i):
                rec(c)
            out.append(i)

        for r in self.roots():
            rec(r)
        return out

    def all_data(self):
        s = list(self.outliers)
        for b in self.blocks:
            s.extend(b)
        return sorted(s)

    def to_json(self):
        return dict(blocks=[list(b) for b in self.blocks], parent=list(self.parent), outliers=list(self.outliers))

    @staticmethod
    def from_json(d):
        return MTree(d["blocks"], d["parent"], d.get("outliers", ()))

    def copy(self):
        return MTree(self.blocks, self.parent, self.outliers)

    def __repr__(self):
        return "MTree(%r,%r,%r)" % (self.blocks, self.parent, self.outliers)


# ---------------------------------------------------------------------------
# enumerators


def set_partitions(items):
    items = list(items)
    if not items:
        yield []
        return
    first = items[0]
    for smaller in set_partitions(items[1:]):
        for n, subset in enumerate(smaller):
            yield smaller[:n] + [[first] + subset] + smaller[n + 1 :]
        yield [[first]] + smaller


def parent_arrays(k):
    """all acyclic parent arrays over k labelled nodes"""
    for par in itertools.product(range(-1, k), repeat=k):
        ok = True
        for i in range(k):
            seen = set()
            j = i
            while j != -1:
                if j in seen:
                    ok = False
                    break
                seen.add(j)
                j = par[j]
            if not ok:
                break
        if ok:
            yield par


def all_mtrees(indices, outliers_allowed):
    """every distinct clone tree (by key) over the data indices; dict key -> MTree"""
    indices = list(indices)
    n = len(indices)
    seen = {}
    subsets = [()]
    if outliers_allowed:
        subsets = [c for r in range(n + 1) for c in itertools.combinations(indices, r)]
    for O in subsets:
        rest = [i for i in indices if i not in O]
        if not rest:
            t = MTree([], [], O)
            seen[t.key()] = t
            continue
        for blocks in set_partitions(rest):
            for par in parent_arrays(len(blocks)):
                t = MTree(blocks, par, O)
                seen.setdefault(t.key(), t)
    return seen


# ---------------------------------------------------------------------------
# C09: linear extensions


def linear_extensions(mt: MTree):
    """all orders of the data with every clone's data after all data of its descendants; outliers free"""
    data = mt.all_data()
    owner = {}
    for i, b in enumerate(mt.blocks):
        for d in b:
            owner[d] = i
    desc_data = {i: set().union(*[set(mt.blocks[d]) for d in mt.descendants(i)]) if mt.descendants(i) else set() for i in range(mt.k)}
    res = []
    for perm in itertools.permutations(data):
        pos = {d: p for p, d in enumerate(perm)}
        ok = True
        for d in data:
            if d in owner:
                for dd in desc_data[owner[d]]:
                    if pos[dd] > pos[d]:
                        ok = False
                        break
            if not ok:
                break
        if ok:
            res.append(perm)
    return res


def count_linear_extensions_formula(mt: MTree):
    """independent closed form (hook-length style) used only to cross-check the brute force on bigger trees"""
    n_tree = sum(len(b) for b in mt.blocks)
    n_out = len(mt.outliers)

    def rec(i):
        # returns (count, size)
        cnt = 1
        sizes = []
        for c in mt.children(i):
            cc, ss = rec(c)
            cnt *= cc
            sizes.append(ss)
        tot = sum(sizes)
        m = math.factorial(tot)
        for s in sizes:
            m //= math.factorial(s)
        cnt *= m * math.factorial(len(mt.blocks[i]))
        return cnt, tot + len(mt.blocks[i])

    cnt = 1
    sizes = []
    for r in mt.roots():
        cc, ss = rec(r)
        cnt *= cc
        sizes.append(ss)
    m = math.factorial(sum(sizes))
    for s in sizes:
        m //= math.factorial(s)
    cnt *= m
    # outliers: any positions, any order
    cnt *= math.comb(n_tree + n_out, n_out) * math.factorial(n_out)
    return cnt


# ---------------------------------------------------------------------------
# C02: grid marginal


def node_log_p(mt: MTree, values, G):
    """values: dict data idx -> array (dims, G).  log p_v = log(1/G) + sum of the clone's data values"""
    some = next(iter(values.values()))
    dims = some.shape[0]
    lp = []
    for b in mt.blocks:
        a = np.full((dims, G), -math.log(G))
        for d in b:
            a = a + values[d]
        lp.append(a)
    return lp


def brute_marginal(mt: MTree, values, G):
    """Literal sum of the statement.  Returns root vector (dims, G) in log space. Only for tiny G^K."""
    lp = node_log_p(mt, values, G)
    dims = lp[0].shape[0] if lp else next(iter(values.values())).shape[0]
    K = mt.k
    roots = mt.roots()
    ch = [mt.children(i) for i in range(K)]
    out = np.full((dims, G), -np.inf)
    for dim in range(dims):
        acc = [[] for _ in range(G)]
        for idx in itertools.product(range(G), repeat=K):
            ok = True
            for v in range(K):
                if idx[v] < sum(idx[c] for c in ch[v]):
                    ok = False
                    break
            if not ok:
                continue
            top = sum(idx[r] for r in roots)
            if top > G - 1:
                continue
            val = sum(lp[v][dim, idx[v]] for v in range(K))
            acc[top].append(val)
        run = []
        for k in range(G):
            run.extend(acc[k])
            out[dim, k] = (logsumexp(run) if run else -np.inf) - math.log(G)
    return out


def _conv_exact(a, b):
    """log-space exact truncated convolution of two (G,) vectors"""
    G = len(a)
    out = np.empty(G)
    for k in range(G):
        out[k] = logsumexp(a[: k + 1] + b[k::-1][: k + 1])
    return out


def dp_marginal(mt: MTree, values, G):
    """Exact log-space recursion R = p*S, S = cumsum(D), D = conv(children R), no truncation/floor.
    Returns (root_vector (dims,G), [log_r per clone])."""
    lp = node_log_p(mt, values, G)
    dims = lp[0].shape[0] if lp else next(iter(values.values())).shape[0]
    R = [None] * mt.k

    def S_of(children, dim):
        D = None
        for c in children:
            D = R[c][dim] if D is None else _conv_exact(D, R[c][dim])
        return np.logaddexp.accumulate(D)

    for v in mt.postorder():
        ch = mt.children(v)
        if not ch:
            R[v] = lp[v].copy()
        else:
            R[v] = np.stack([lp[v][dim] + S_of(ch, dim) for dim in range(dims)])
    roots = mt.roots()
    if roots:
        root = np.stack([S_of(roots, dim) - math.log(G) for dim in range(dims)])
    else:
        root = None
    return root, R


def brute_map(mt: MTree, node_lp, G):
    """max over feasible assignments of sum_v node_lp[v][idx_v] for ONE dim; node_lp: list of (G,) arrays"""
    K = mt.k
    ch = [mt.children(i) for i in range(K)]
    roots = mt.roots()
    best = -np.inf
    for idx in itertools.product(range(G), repeat=K):
        if any(idx[v] < sum(idx[c] for c in ch[v]) for v in range(K)):
            continue
        if sum(idx[r] for r in roots) > G - 1:
            continue
        val = sum(node_lp[v][idx[v]] for v in range(K))
        if val > best:
            best = val
    return best


def dp_map(mt: MTree, node_lp, G):
    """independent max-plus DP for the same optimum (one dim)"""
    K = mt.k
    M = [None] * K  # M[v][i] = best of subtree with idx_v == i

    def best_children(children):
        # B[j] = max over children's assignments with indices summing to exactly j
        B = None
        for c in children:
            if B is None:
                B = M[c].copy()
            else:
                nb = np.full(G, -np.inf)
                for j in range(G):
                    nb[j] = np.max(B[: j + 1] + M[c][j::-1][: j + 1])
                B = nb
        return np.maximum.accumulate(B)  # best with sum <= j

    for v in mt.postorder():
        ch = mt.children(v)
        M[v] = node_lp[v].copy() if not ch else node_lp[v] + best_children(ch)
    roots = mt.roots()
    if not roots:
        return 0.0
    return float(best_children(roots)[G - 1])


# ---------------------------------------------------------------------------
# C03: FS-CRP density from the property text


def z_series(r):
    return sum(C_CONST ** (-(i - 1)) for i in range(1, r + 1))


def fscrp_prior(mt: MTree, alpha, fixed_root):
    K = mt.k
    lp = K * math.log(alpha) + sum(math.lgamma(len(b)) for b in mt.blocks)
    if fixed_root:
        roots = mt.roots()
        for r in roots:
            m = 1 + len(mt.descendants(r))
            lp -= (m - 1) * math.log(m)
        rr = len(roots)
        if rr > 0:
            lp -= math.log(z_series(rr))
            lp -= (rr - 1) * math.log(C_CONST)
    else:
        lp -= (K - 1) * math.log(K + 1)
    # minus sum over all nodes (virtual root included) of log(child-count!)
    lp -= math.lgamma(len(mt.roots()) + 1)
    for i in range(K):
        lp -= math.lgamma(len(mt.children(i)) + 1)
    return lp


def outlier_alone_marginal(value, G):
    """marginal-form data term of the single-clone tree holding that point alone"""
    single = MTree([(0,)], [-1])
    root, _ = dp_marginal(single, {0: value}, G)
    return float(sum(logsumexp(root[d]) for d in range(root.shape[0])))


def fscrp_joint(mt: MTree, values, G, alpha, outlier_terms, fixed_root):
    """outlier_terms: dict idx -> (log p_outlier, log p_not_outlier); (0, x) means prior switched off for that point"""
    lp = fscrp_prior(mt, alpha, fixed_root)
    for i, b in enumerate(mt.blocks):
        for d in b:
            po, pn = outlier_terms[d]
            if po != 0:
                lp += pn
    for d in mt.outliers:
        po, pn = outlier_terms[d]
        if po != 0:
            lp += po
    if mt.k > 0:
        root, _ = dp_marginal(mt, values, G)
        for dim in range(root.shape[0]):
            lp += root[dim, G - 1] if fixed_root else logsumexp(root[dim])
    for d in mt.outliers:
        lp += outlier_alone_marginal(values[d], G)
    return float(lp)


# ---------------------------------------------------------------------------
# C16: majority clades


def majority_clades(keys_with_weight, threshold):
    """keys_with_weight: list of (set of clades, weight); returns clades with normalised support > threshold"""
    tot = sum(w for _, w in keys_with_weight)
    sup = {}
    for clades, w in keys_with_weight:
        for c in clades:
            sup[c] = sup.get(c, 0.0) + w / tot
    return {c for c, s in sup.items() if s > threshold}, sup


# ---------------------------------------------------------------------------
# bridge to the real Tree (public editing API only)


def to_tree(mt: MTree, data, order=None, sibling_perm=None):
    """Build a phyclone Tree from the model by post-order create_root_node.
    `data`: dict/list idx -> DataPoint.  `order`: optional permutation of roots' processing order."""
    from phyclone.tree import Tree

    some = data[mt.all_data()[0]] if mt.all_data() else None
    grid = some.grid_size if some is not None else None
    return to_tree_grid(mt, data, grid, order=order, sibling_perm=sibling_perm)


def to_tree_grid(mt: MTree, data, grid, order=None, sibling_perm=None):
    from phyclone.tree import Tree

    t = Tree(grid)
    name = {}

    def kids(i):
        ch = mt.children(i)
        if sibling_perm is not None:
            ch = sorted(ch, key=lambda c: sibling_perm[c % len(sibling_perm)] * 1000 + c)
        return ch

    def rec(i):
        for c in kids(i):
            rec(c)
        name[i] = t.create_root_node(children=[name[c] for c in kids(i)], data=[data[d] for d in mt.blocks[i]])

    for r in kids(-1):
        rec(r)
    for o in mt.outliers:
        t.add_data_point_to_outliers(data[o])
    return t


def from_tree(t):
    """read an MTree back from a real Tree through public accessors (names arbitrary)"""
    nodes = list(t.nodes)
    idx = {n: i for i, n in enumerate(nodes)}
    blocks = [tuple(sorted(dp.idx for dp in t.get_data(n))) for n in nodes]
    parent = []
    for n in nodes:
        p = t.get_parent(n)
        parent.append(-1 if p == t.root_node_name else idx[p])
    return MTree(blocks, parent, tuple(sorted(dp.idx for dp in t.outliers)))


def tree_key(t):
    return (t.get_clades(), frozenset(d.idx for d in t.outliers))
