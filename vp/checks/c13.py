"""C13 — the concentration update is an exact Gibbs step for the CRP concentration.

E6: a recording numpy Generator (scipy's beta/bernoulli/gamma .rvs(random_state=rng) bottom out in rng.beta,
rng.binomial, rng.standard_gamma) logs the parameters of every draw and returns scripted values.
Oracle: Beta(alpha+1, n); Bernoulli p = w1/(w1+w2) computed in log space from the target density
x^(a+K-2) (x+n) exp(-x r), r = b - log(eta) (thorough: w1, w2 by numerical quadrature of that density);
gamma shape in {a+K-1, a+K} matching the Bernoulli outcome, scale 1/r; returned value = variate/r floored at 1e-10.
Thorough: 2-D quadrature of the implemented transition kernel against the conditional posterior p(alpha | K, n).
Call site: update_concentration_value receives (alpha, #clones, #non-outlier points) and the new value is used by
later density evaluations.
Run loop: run._run_main_sampler with scripted stand-in moves (three trees per sweep that differ in clone count and
outlier set) and a recording concentration sampler: sweep i must call the update with (alpha, K, n) of the tree the
sweep ends with, and record the returned value and the density under it.
"""
import math

import numpy as np
from hypothesis import strategies as st
from scipy import integrate
from scipy.special import gammaln

from vp import gen
from vp.common import HarnessError, Outcome, Violation, crash_violation
from vp.model import MTree, to_tree_grid

PROPERTY = "C13"
LEVEL = "exploration"
STRATIFIED = True
RULE = (
    "Hypothesis draws a, b, alpha in (1e-3, 50), 1 <= K <= n <= 200, a scripted auxiliary value eta in (0,1) (incl. values "
    "near 0 and 1), a scripted Bernoulli outcome and gamma variate; every fourth shard draws trees with outliers for the "
    "call site, every eighth shard scripted run-loop sweeps. Non-trivial: K >= 2 (sampler) / K >= 2 with outliers present (call site). Distinct: the drawn tuple."
)
ASSUMPTIONS = [
    "the sampler draws through Generator.beta / binomial / standard_gamma (directly or via scipy .rvs(random_state=rng))",
    "thorough tier quadrature: scipy.integrate.quad, a >= 1 (integrable, non-singular posterior)",
]


class RecordingGenerator(np.random.Generator):
    def __init__(self, script):
        super().__init__(np.random.PCG64(0))
        self.script = dict(script)
        self.log = []

    def beta(self, a, b, size=None):
        self.log.append(("beta", float(np.asarray(a).ravel()[0]), float(np.asarray(b).ravel()[0])))
        return self._ret(self.script["eta"], size)

    def binomial(self, n, p, size=None):
        self.log.append(("binomial", int(np.asarray(n).ravel()[0]), float(np.asarray(p).ravel()[0])))
        return self._ret(int(self.script["z"]), size)

    def standard_gamma(self, shape, size=None, dtype=np.float64, out=None):
        self.log.append(("standard_gamma", float(np.asarray(shape).ravel()[0])))
        return self._ret(self.script["g"], size)

    def gamma(self, shape, scale=1.0, size=None):
        self.log.append(("gamma", float(np.asarray(shape).ravel()[0]), float(np.asarray(scale).ravel()[0])))
        return self._ret(self.script["g"] * float(np.asarray(scale).ravel()[0]), size)

    def random(self, size=None, dtype=np.float64, out=None):
        # a refactor to `rng.random() < p` for the Bernoulli draw: emulate the scripted outcome and log the threshold lazily
        self.log.append(("random",))
        return _ScriptedU(self)

    @staticmethod
    def _ret(v, size):
        if size is None or size == () or size == 1 and False:
            return v
        return np.full(size, v)


class _ScriptedU(float):
    def __new__(cls, rng):
        o = super().__new__(cls, 0.5)
        o.rng = rng
        return o

    def __lt__(self, p):
        self.rng.log.append(("binomial", 1, float(p)))
        return bool(self.rng.script["z"])


@st.composite
def _sampler_case(draw):
    n = draw(st.integers(1, 200))
    K = draw(st.integers(1, n))
    pos = st.sampled_from([1.0, 0.01, 2.5, 50.0, 1e-3]) | st.floats(1e-3, 50.0)
    eta = draw(st.sampled_from([0.5, 1e-12, 1 - 1e-12, 0.999, 1e-3]) | st.floats(1e-9, 1 - 1e-9))
    pre = []
    for _ in range(draw(st.sampled_from([0, 1, 0, 2]))):
        same = draw(st.sampled_from([True, True, False]))
        pn = n if same else draw(st.integers(1, 200))
        pre.append([draw(pos), K if same else draw(st.integers(1, pn)), pn])
    return dict(kind="sampler", a=draw(pos), b=draw(pos), alpha=draw(pos), K=K, n=n, eta=float(eta), z=draw(st.integers(0, 1)), g=draw(st.sampled_from([1.0, 1e-14, 3.7, 25.0]) | st.floats(1e-12, 60.0)), pre=pre)


@st.composite
def _site_case(draw):
    n = draw(st.integers(1, 7))
    mt = draw(gen.st_mtree(indices=list(range(n)), outliers=True, max_outliers=4))
    alpha = draw(st.sampled_from([1.0, 0.2, 7.5, 2e-3, 4e-9, 1e-10]))
    new = draw(st.sampled_from([2.0, 0.05, 13.0, 1.0, alpha * (1 + 1e-6), alpha * (1 - 3e-6), 1e-10, 6.5e-9]))
    return dict(kind="site", mtree=mt, alpha=alpha, new=new, values=draw(gen.st_values_spec(regimes=("moderate", "ties"))), prior=draw(st.sampled_from([0.1, 0.0, 0.4])))


@st.composite
def _loop_case(draw):
    n = draw(st.integers(2, 6))
    iters = draw(st.integers(1, 3))
    # three scripted trees per sweep (whole-tree / sub-tree update, data-point move, prune-regraft move): successive
    # trees differ in the number of clones AND in which points are outliers
    trees = [draw(gen.st_mtree(indices=list(range(n)), outliers=True, max_outliers=n)) for _ in range(3 * iters + 1)]
    return dict(kind="loop", n=n, iters=iters, trees=trees, alpha=draw(st.sampled_from([1.0, 0.2, 7.5])), news=[draw(st.sampled_from([2.0, 0.05, 13.0, 1.0])) for _ in range(iters)],
                s=draw(st.sampled_from([0.0, 0.5, 1.0])), u=draw(st.sampled_from([0.3, 0.7])), values=draw(gen.st_values_spec(regimes=("moderate", "ties"))), prior=draw(st.sampled_from([0.1, 0.4])))


def strategy(ctx, shard=0):
    if shard % 8 == 7:
        return _loop_case()
    return _site_case() if shard % 4 == 3 else _sampler_case()


def budget(ctx):
    return dict(max_examples=ctx.pick(3200, 120000), shards=16)


def warmup():
    evaluate(dict(kind="sampler", a=1.0, b=1.0, alpha=1.0, K=2, n=5, eta=0.5, z=1, g=1.0))


def evaluate(case):
    if case["kind"] == "site":
        return _site(case)
    if case["kind"] == "loop":
        return _loop(case)
    return _sampler(case)


def log_weights_closed(a, b, K, n, eta):
    r = b - math.log(eta)
    lw1 = gammaln(a + K) - (a + K) * math.log(r)
    lw2 = math.log(n) + gammaln(a + K - 1) - (a + K - 1) * math.log(r)
    return lw1, lw2, r


def params_from_code(a, b, alpha, K, n, eta, z, g=1.0, pre_calls=()):
    """run the real sampler with scripted draws; return (log, new_value).  `pre_calls`: earlier (alpha, K, n) updates on
    the SAME sampler object (one sampler lives for a whole chain), whose draws are discarded"""
    from phyclone.mcmc.concentration import GammaPriorConcentrationSampler

    rng = RecordingGenerator(dict(eta=eta, z=z, g=g))
    s = GammaPriorConcentrationSampler(a, b, rng=rng)
    for (pa, pk, pn) in pre_calls:
        s.sample(pa, pk, pn)
    del rng.log[:]
    new = s.sample(alpha, K, n)
    return rng.log, float(new)


def _sampler(case, quad=False):
    a, b, alpha, K, n, eta, z, g = (case[k] for k in ("a", "b", "alpha", "K", "n", "eta", "z", "g"))
    tags = dict(K=K, n=n, z=z)
    try:
        log, new = params_from_code(a, b, alpha, K, n, eta, z, g, pre_calls=[tuple(p) for p in case.get("pre", [])])
    except Exception as e:
        raise crash_violation("sample", e, tags)
    betas = [l for l in log if l[0] == "beta"]
    bins = [l for l in log if l[0] == "binomial"]
    gams = [l for l in log if l[0] in ("standard_gamma", "gamma")]
    if len(betas) != 1 or len(bins) != 1 or len(gams) != 1:
        raise Violation("draws", "expected one beta, one Bernoulli and one gamma draw, saw %r" % ([l[0] for l in log],), tags)

    def close(x, y, rel=1e-9):
        return abs(x - y) <= rel * max(1.0, abs(y))

    if not (close(betas[0][1], alpha + 1) and close(betas[0][2], n)):
        raise Violation("aux/beta-params", "auxiliary variable drawn from Beta(%r, %r), expected Beta(alpha+1=%r, n=%r)" % (betas[0][1], betas[0][2], alpha + 1, n), tags)
    lw1, lw2, r = log_weights_closed(a, b, K, n, eta)
    if quad:
        f1 = lambda x: math.exp((a + K - 1) * math.log(x) - x * r - lw1) if x > 0 else 0.0  # noqa: E731
        f2 = lambda x: n * math.exp((a + K - 2) * math.log(x) - x * r - lw2) if x > 0 else 0.0  # noqa: E731
        q1, _ = integrate.quad(f1, 0, np.inf, limit=200)
        q2, _ = integrate.quad(f2, 0, np.inf, limit=200)
        if not (abs(q1 - 1) < 1e-5 and abs(q2 - 1) < 1e-5):
            raise HarnessError("quadrature of the target density components disagrees with the closed form (%r, %r)" % (q1, q2))
    p_exp = 1.0 / (1.0 + math.exp(lw2 - lw1))
    if bins[0][1] != 1 or not abs(bins[0][2] - p_exp) <= 1e-9 * max(p_exp, 1 - p_exp, 1e-300) + 1e-15:
        raise Violation("mixture/weight", "mixture component chosen with probability %.15g, target density gives %.15g (a=%r b=%r K=%d n=%d eta=%r)" % (bins[0][2], p_exp, a, b, K, n, eta), tags)
    shape_exp = a + K - 1 + z
    if gams[0][0] == "standard_gamma":
        shape, scale = gams[0][1], None
    else:
        shape, scale = gams[0][1], gams[0][2]
    if not close(shape, shape_exp):
        raise Violation("mixture/shape", "gamma shape %r, expected a+K-1+z = %r (z=%d)" % (shape, shape_exp, z), tags)
    if scale is not None and not close(scale, 1.0 / r):
        raise Violation("mixture/rate", "gamma scale %r, expected 1/(b - log eta) = %r" % (scale, 1.0 / r), tags)
    new_exp = max(g / r, 1e-10)
    if not close(new, new_exp, 1e-9) and not (new_exp <= 1e-10 and new <= 1e-9):
        raise Violation("mixture/rate", "returned value %r, expected variate/(b - log eta) = %r" % (new, new_exp), tags)
    classes = ["kind:sampler", "z=%d" % z, "K>=2" if K >= 2 else "K=1"]
    if case.get("pre"):
        classes.append("earlier-updates-on-same-sampler")
    if eta < 1e-6 or eta > 1 - 1e-6:
        classes.append("eta-extreme")
    return Outcome(nontrivial=K >= 2, classes=tuple(classes), info=case)


def _loop(case):
    """run._run_main_sampler with scripted stand-in moves and a recording concentration sampler: the (K, n) handed to the
    update in sweep i must be those of the tree the sweep ends with (the tree recorded in the trace for sweep i), and the
    recorded alpha / log_p_one must be the updated value / the density under it."""
    import contextlib
    import io
    import types

    import phyclone.run as prun
    from phyclone.tree import FSCRPDistribution, Tree, TreeJointDistribution
    from phyclone.utils import Timer
    from vp.model import from_tree

    n = case["n"]
    vs = case["values"]
    values = gen.make_values(n, 1, 4, vs["seed"], vs["regime"], vs["scale"])
    data = gen.make_datapoints(values, outlier_prior=case["prior"])
    mts = [MTree.from_json(t) for t in case["trees"]]
    script = [to_tree_grid(m, data, (1, 4)) for m in mts]
    td = TreeJointDistribution(FSCRPDistribution(case["alpha"]))
    pos = [0]
    calls = []

    class Move:
        def sample_tree(self, tree):
            pos[0] += 1
            return script[pos[0]].copy()

    class Conc:
        def sample(self, old, k, nn):
            calls.append((old, k, nn))
            return case["news"][len(calls) - 1]

    class Rng:
        def random(self):
            return case["u"]

    mv = Move()
    holder = types.SimpleNamespace(tree_sampler=mv, subtree_sampler=mv, dp_sampler=mv, prg_sampler=mv, conc_sampler=Conc(), burnin_sampler=None)
    tags = dict(iters=case["iters"])
    try:
        with contextlib.redirect_stdout(io.StringIO()):
            res = prun._run_main_sampler(True, [data[i] for i in sorted(data)], float("inf"), case["iters"], 1, 1, 10 ** 9, holder, ["s"], 1, Timer(), script[0].copy(), td, 0, Rng(), case["s"])
    except Exception as e:
        raise crash_violation("loop", e, tags)
    tr = res["trace"]
    if len(tr) != case["iters"] + 1 or len(calls) != case["iters"]:
        raise Violation("loop/count", "%d sweeps with the concentration update on gave %d trace entries and %d updates" % (case["iters"], len(tr), len(calls)), tags)
    alpha = case["alpha"]
    moved = False
    for i in range(case["iters"]):
        e = tr[i + 1]
        t = Tree.from_dict(e["tree"])
        m = from_tree(t)
        k, n_in = m.k, sum(len(b) for b in m.blocks)
        if calls[i] != (alpha, k, n_in):
            raise Violation("loop/args", "sweep %d: the update was called with (alpha, K, n)=%r but the sweep ended with the tree %r: expected (%r, %d, %d)" % (i, calls[i], m, alpha, k, n_in), tags)
        alpha = case["news"][i]
        if e["alpha"] != alpha:
            raise Violation("loop/recorded-alpha", "sweep %d: trace records alpha=%r, the update returned %r" % (i, e["alpha"], alpha), tags)
        fresh = float(TreeJointDistribution(FSCRPDistribution(alpha)).log_p_one(t))
        if abs(float(e["log_p_one"]) - fresh) > 1e-9 * max(1.0, abs(fresh)):
            raise Violation("loop/stale-density", "sweep %d: recorded log_p_one %.12g, under the updated alpha %r it is %.12g" % (i, e["log_p_one"], alpha, fresh), tags)
        a, b, c = mts[3 * i + 1], mts[3 * i + 2], mts[3 * i + 3]
        moved = moved or (sum(map(len, a.blocks)) != sum(map(len, c.blocks))) or a.k != c.k
    return Outcome(nontrivial=moved, classes=("kind:loop", "n-or-K-changed-within-a-sweep" if moved else "same-K-n-within-sweep", "iters=%d" % case["iters"]), info=case)


def _site(case):
    from phyclone.run import update_concentration_value
    from phyclone.tree import FSCRPDistribution, TreeJointDistribution

    mt = MTree.from_json(case["mtree"])
    n = len(mt.all_data())
    vs = case["values"]
    values = gen.make_values(n, 1, 4, vs["seed"], vs["regime"], vs["scale"])
    data = gen.make_datapoints(values, outlier_prior=case["prior"])
    tree = to_tree_grid(mt, data, (1, 4))
    td = TreeJointDistribution(FSCRPDistribution(case["alpha"]))
    calls = []

    class Stub:
        def sample(self, old, k, nn):
            calls.append((old, k, nn))
            return case["new"]

    tags = dict(K=mt.k, n_out=len(mt.outliers))
    try:
        before = float(td.log_p_one(tree))
        update_concentration_value(Stub(), tree, td)
        after = float(td.log_p_one(tree))
    except Exception as e:
        raise crash_violation("call-site", e, tags)
    n_in = sum(len(b) for b in mt.blocks)
    if len(calls) != 1 or calls[0][0] != case["alpha"] or calls[0][1] != mt.k or calls[0][2] != n_in:
        raise Violation("call-site/args", "sampler called with %r, expected (alpha=%r, K=%d clones, n=%d non-outlier points) for %r" % (calls, case["alpha"], mt.k, n_in, mt), tags)
    if td.prior.alpha != case["new"] or abs(float(td.prior.log_alpha) - math.log(case["new"])) > 1e-12:
        raise Violation("call-site/not-applied", "after the update alpha=%r log_alpha=%r, expected %r / %r" % (td.prior.alpha, td.prior.log_alpha, case["new"], math.log(case["new"])), tags)
    fresh = float(TreeJointDistribution(FSCRPDistribution(case["new"])).log_p_one(tree))
    if abs(after - fresh) > 1e-9 * max(1, abs(fresh)) and not (case["new"] == case["alpha"]):
        raise Violation("call-site/stale-density", "log_p_one after the update %.12g, under the new alpha it should be %.12g (before %.12g)" % (after, fresh, before), tags)
    # the real sampler on the same (K, n): K = 0 (all outliers) must not crash
    try:
        from phyclone.mcmc.concentration import GammaPriorConcentrationSampler

        s = GammaPriorConcentrationSampler(0.01, 0.01, rng=np.random.default_rng(1))
        td2 = TreeJointDistribution(FSCRPDistribution(case["alpha"]))
        update_concentration_value(s, tree, td2)
        if not (td2.prior.alpha > 0 and math.isfinite(td2.prior.alpha)):
            raise Violation("call-site/value", "update produced alpha=%r" % td2.prior.alpha, tags)
    except Violation:
        raise
    except Exception as e:
        raise crash_violation("call-site", e, tags)
    # the sampler as the run command wires it (setup_samplers): after the chain's generator has been used, an update must
    # not reproduce what a generator in the chain's INITIAL state gives - i.e. it must not replay numbers already consumed
    try:
        from phyclone.run import setup_kernel, setup_samplers

        sd = 1000 + 7 * n + mt.k
        rng = np.random.default_rng(sd)
        td3 = TreeJointDistribution(FSCRPDistribution(case["alpha"]))
        smp = setup_samplers(setup_kernel(case["prior"], "semi-adapted", rng, td3), 2, case["prior"], 0.5, rng, td3)
        rng.random(17)
        cs = smp.conc_sampler
        # K >= 2 keeps the gamma shape above 1: small shapes are floored at 1e-10 most of the time and would coincide
        x = cs.sample(1.0, mt.k + 2, n_in + 2)
        replay = GammaPriorConcentrationSampler(cs.a, cs.b, rng=np.random.default_rng(sd)).sample(1.0, mt.k + 2, n_in + 2)
    except Exception as e:
        raise crash_violation("call-site", e, tags)
    if x == replay and x > 1e-9:
        raise Violation("call-site/replayed-stream", "the concentration sampler built by setup_samplers returned %r after the chain generator had been advanced - exactly what a generator in the chain's initial state returns: its draws replay random numbers the chain has already consumed" % (x,), tags)
    classes = ["kind:site", "outliers" if mt.outliers else "no-outliers", "K=0" if mt.k == 0 else ("K>=2" if mt.k >= 2 else "K=1")]
    if case["new"] != case["alpha"] and abs(case["new"] - case["alpha"]) <= 1e-5 * abs(case["alpha"]) + 1e-8:
        classes.append("consecutive-values-nearly-equal-or-tiny")
    return Outcome(nontrivial=mt.k >= 2 and len(mt.outliers) > 0, classes=tuple(classes), info=case)


# ---------------------------------------------------------------------------
# thorough: the implemented kernel leaves p(alpha | K, n) invariant (2-D quadrature, no closed form presupposed)


def _log_post(alpha, a, b, K, n):
    return (a - 1 + K) * math.log(alpha) - b * alpha + gammaln(alpha) - gammaln(alpha + n)


def kernel_density(alpha, alpha_new, a, b, K, n, eta):
    """density of alpha_new given (alpha, eta) as implemented (parameters read from the code)"""
    from scipy.stats import gamma as G

    out = 0.0
    for z in (0, 1):
        log, new = params_from_code(a, b, alpha, K, n, eta, z, 1.0)
        p = [l for l in log if l[0] == "binomial"][0][2]
        gm = [l for l in log if l[0] in ("standard_gamma", "gamma")][0]
        shape = gm[1]
        scale = new  # variate 1.0 -> returned value is the scale
        w = p if z == 1 else 1 - p
        out += w * G.pdf(alpha_new, shape, scale=scale)
    return out


def invariance_quadrature(a, b, K, n, targets):
    from scipy.stats import beta as B

    Z, _ = integrate.quad(lambda x: math.exp(_log_post(x, a, b, K, n)), 0, np.inf, limit=300)
    worst = 0.0
    for ap in targets:
        def inner(alpha):
            if alpha <= 0:
                return 0.0
            pa = math.exp(_log_post(alpha, a, b, K, n)) / Z
            from phyclone.mcmc.concentration import GammaPriorConcentrationSampler  # noqa

            log, _ = params_from_code(a, b, alpha, K, n, 0.5, 0, 1.0)
            bp = [l for l in log if l[0] == "beta"][0]
            f = lambda eta: B.pdf(eta, bp[1], bp[2]) * kernel_density(alpha, ap, a, b, K, n, eta)  # noqa: E731
            v, _ = integrate.quad(f, 0, 1, limit=100, epsabs=1e-10, epsrel=1e-8)
            return pa * v

        got, _ = integrate.quad(inner, 0, np.inf, limit=100, epsabs=1e-9, epsrel=1e-7)
        exp = math.exp(_log_post(ap, a, b, K, n)) / Z
        worst = max(worst, abs(got - exp) / exp)
        if abs(got - exp) > 2e-4 * exp:
            raise Violation("invariance/quadrature", "implemented update is not invariant for p(alpha|K=%d,n=%d), a=%s b=%s: transported density at %s is %.8g, posterior %.8g" % (K, n, a, b, ap, got, exp), dict(K=K, n=n))
    return worst


def extra(ctx, stats):
    from vp.common import case_hash, pool_map

    combos = [(1.0, 1.0, 2, 5), (2.5, 0.5, 3, 10), (1.0, 2.0, 1, 4), (3.0, 1.5, 6, 40)]
    if ctx.tier == "quick":
        combos = combos[:2]
    res = pool_map(_inv_catch, combos, procs=ctx.procs)
    for c, r in zip(combos, res):
        stats.evaluations += 1
        stats.count("kind:invariance-quadrature")
        if isinstance(r, dict):
            stats.violations.append(dict(r, case=dict(kind="quad", combo=list(c))))
        else:
            stats.nontrivial_keys.add(case_hash(["quad", c]))
            stats.notes.append("invariance quadrature a=%s b=%s K=%d n=%d: max relative deviation %.2e" % (c + (r,)))


def _inv_catch(c):
    try:
        return invariance_quadrature(*c, targets=[0.3, 1.0, 2.5] if True else [])
    except Violation as v:
        return dict(component=v.component, message=v.message, tags=v.tags, detail={})
