"""C15 — trees survive serialisation; trace entries are self-consistent.

(a) edit programs (vp.editmachine) with `fork` ops: the current tree is round-tripped (dict / pickle / gzip+pickle
    trace path) into a twin; from then on every edit is applied to both and after every step the twin must have the
    same clades, outliers, node labels, parent relation, per-node vectors and joint densities (1e-8).
(b) generated run configurations -> run_phyclone_chain -> create_main_run_output -> read back: recorded iterations are
    [after burn-in] + exactly the multiples of `thin` in order (a prefix of that list under a time limit); every entry
    restores to a tree over all data points once, and log_p_one recomputed under the entry's alpha equals the record.
"""
import contextlib
import gzip
import io
import os
import pickle
import tempfile

import numpy as np
from hypothesis import strategies as st

from vp import editmachine as em
from vp import gen
from vp.common import SCRATCH, Outcome, Violation, crash_violation
from vp.model import from_tree

PROPERTY = "C15"
LEVEL = "exploration"
STRATIFIED = True
RULE = (
    "Even shards: Hypothesis edit programs with fork ops (round-trip kinds dict/pickle/gzip), twin compared after every "
    "step; non-trivial = a round-trip taken after a prune/subtree cycle with >= 1 later edit applied to both. Odd shards: "
    "run configurations (n 1-5, iterations 1-12, thin 1-5, burn-in 0-2, concentration update on/off, 3 proposals, outliers, "
    "subtree probability, particles 2-5, time limit 0 or inf); non-trivial = >= 3 entries and alpha changed between entries "
    "(or update off with >= 3 entries). Distinct: hash of the program / configuration."
)
ASSUMPTIONS = [
    "likelihood equalities on data inside the underflow window of C02",
    "single chain in-process for (b); multi-chain traces are exercised by C18/C11",
]


@st.composite
def _config(draw):
    n = draw(st.integers(1, 5))
    out = draw(st.sampled_from([0.0, 0.0, 0.1, 0.4]))
    return dict(
        kind="run",
        n=n,
        dims=draw(st.sampled_from([1, 2, 3])),
        G=draw(st.sampled_from([5, 11, 8])),
        values=draw(gen.st_values_spec(regimes=("moderate", "ties", "flat", "spiky"))),
        iters=draw(st.integers(1, 12)),
        thin=draw(st.integers(1, 5)),
        burnin=draw(st.integers(0, 2)),
        conc_update=draw(st.booleans()),
        alpha=draw(st.sampled_from([1.0, 0.3, 4.0])),
        proposal=draw(st.sampled_from(["semi-adapted", "fully-adapted", "bootstrap"])),
        N=draw(st.integers(2, 5)),
        thr=draw(st.sampled_from([0.5, 0.0, 1.0])),
        outlier_prob=out,
        subtree_prob=draw(st.sampled_from([0.0, 0.5, 1.0])),
        max_time=draw(st.sampled_from(["inf", "inf", 0.0, 3.6, "inf", 2.0, 5.5, 1.0])),
        seed=draw(st.integers(0, 2 ** 31 - 1)),
    )


def strategy(ctx, shard=0):
    if shard % 2 == 0:
        return em.st_program(max_points=6, max_edits=ctx.pick(25, 50), samplers=False, forks=True, big=(shard % 8 == 4)).map(lambda c: dict(c, kind="edit"))
    return _config()


def budget(ctx):
    return dict(max_examples=ctx.pick(1600, 60000), shards=16)


def warmup():
    evaluate(dict(kind="run", n=2, dims=1, G=5, values=dict(seed=1, regime="moderate", scale=1.0), iters=2, thin=1, burnin=1, conc_update=True, alpha=1.0, proposal="semi-adapted", N=2, thr=0.5, outlier_prob=0.1, subtree_prob=0.5, max_time="inf", seed=3))
    evaluate(dict(kind="run", n=2, dims=1, G=5, values=dict(seed=1, regime="moderate", scale=1.0), iters=2, thin=1, burnin=1, conc_update=True, alpha=1.0, proposal="fully-adapted", N=2, thr=0.5, outlier_prob=0.0, subtree_prob=0.5, max_time="inf", seed=3))


def evaluate(case):
    if case.get("kind") == "run":
        return _eval_run(case)
    return _eval_edit(case)


# ---------------------------------------------------------------------------


def compare_twins(m, where, strict_labels):
    """strict_labels: immediately after the round-trip node names must be identical; after further edits (relabel and
    graft renumber nodes in traversal order, which is not part of a tree's identity) clones are matched by content."""
    a, b = m.tree, m.twin
    tags = dict(where=where, kind=m.twin_kind)
    comp = "roundtrip/%s" % m.twin_kind
    if from_tree(a).key() != from_tree(b).key():
        raise Violation(comp + "/structure", "%s: round-tripped tree is %r, original %r" % (where, from_tree(b), from_tree(a)), tags)
    if strict_labels:
        if a.labels != b.labels:
            raise Violation(comp + "/labels", "%s: labels differ: %r vs %r" % (where, a.labels, b.labels), tags)
        if sorted(a.nodes) != sorted(b.nodes) or any(a.get_parent(n) != b.get_parent(n) for n in a.nodes):
            raise Violation(comp + "/labels", "%s: node names / parents differ" % where, tags)
        if a.node_last_added_to != b.node_last_added_to:
            raise Violation(comp + "/labels", "%s: node_last_added_to %r vs %r" % (where, a.node_last_added_to, b.node_last_added_to), tags)
    if not (a == b) or hash(a) != hash(b):
        raise Violation(comp + "/eq", "%s: round-tripped tree does not compare/hash equal" % where, tags)
    aa, bb = em.node_arrays(a), em.node_arrays(b)
    ca = {frozenset(dp.idx for dp in a.get_data(n)): n for n in a.nodes}
    cb = {frozenset(dp.idx for dp in b.get_data(n)): n for n in b.nodes}
    for content, na in ca.items():
        nb = cb[content]
        for j, nm in enumerate(("log_p", "log_r")):
            d = float(np.max(np.abs(aa[na][j] - bb[nb][j])))
            if not d <= 1e-8:
                raise Violation(comp + "/vectors", "%s: clone %r %s differs by %.3e after round-trip" % (where, sorted(content), nm, d), tags)
    if len(a.nodes) > 0:
        d = float(np.max(np.abs(aa["root"][1] - bb["root"][1])))
        if not d <= 1e-8:
            raise Violation(comp + "/vectors", "%s: root vector differs by %.3e after round-trip" % (where, d), tags)
    for nm, f in (("log_p", m.td.log_p), ("log_p_one", m.td.log_p_one)):
        x, y = float(f(a)), float(f(b))
        if not abs(x - y) <= 1e-8 * max(1.0, abs(x)):
            raise Violation(comp + "/density", "%s: %s %.12g vs %.12g after round-trip" % (where, nm, x, y), tags)


def _eval_edit(case):
    steps = [0]

    def on_step(m, i, name):
        em.check_ghosts(m, "after step %d (%s)" % (i, name), structural=True, values=True)
        if m.twin is not None:
            steps[0] += 1
            compare_twins(m, "after step %d (%s)" % (i, name), strict_labels=(name == "fork"))
            em.structural_invariants(m.twin, m.model, where="twin after step %d (%s)" % (i, name))

    m = em.Machine(case, on_step=on_step).run()
    classes = set(c for c in m.classes if c.startswith("fork") or c.startswith("serialise"))
    classes.add("kind:edit")
    if m.twin is not None:
        classes.add("twin:" + m.twin_kind)
    return Outcome(
        nontrivial=m.twin is not None and m.fork_after_prune and m.edits_after_fork >= 1,
        classes=tuple(sorted(classes)),
        info=dict(kind="edit", n=case["n"], applied=m.applied, final=m.model.to_mtree().to_json()),
        weight=steps[0],
    )


def _eval_run(case):
    from phyclone.process_trace import create_main_run_output
    from phyclone.run import run_phyclone_chain
    from phyclone.tree import FSCRPDistribution, Tree, TreeJointDistribution

    gen.clear_caches()
    n = case["n"]
    vs = case["values"]
    values = gen.make_values(n, case["dims"], case["G"], vs["seed"], vs["regime"], vs["scale"])
    datad = gen.make_datapoints(values, outlier_prior=case["outlier_prob"])
    data = [datad[i] for i in range(n)]
    max_time = float("inf") if case["max_time"] == "inf" else float(case["max_time"])
    rng = np.random.default_rng(case["seed"])
    tags = dict(proposal=case["proposal"], outliers=case["outlier_prob"] > 0, conc=case["conc_update"], n=n)
    os.makedirs(SCRATCH, exist_ok=True)
    import phyclone.run as prun

    class FakeTimer:
        """deterministic clock for time-limited runs: every `with timer:` block takes exactly one time unit"""

        def __init__(self, func=None):
            self.elapsed = 0.0

        def __enter__(self):
            return self

        def __exit__(self, *a):
            self.elapsed += 1.0

    real_timer = prun.Timer
    if max_time != float("inf"):
        prun.Timer = FakeTimer
    try:
        with contextlib.redirect_stdout(io.StringIO()):
            res = run_phyclone_chain(
                case["burnin"], case["conc_update"], case["alpha"], data, max_time, case["iters"], case["N"], 1, 1,
                case["outlier_prob"], 10, case["proposal"], case["thr"], rng, ["s%d" % i for i in range(case["dims"])], case["thin"], 0, case["subtree_prob"],
            )
            with tempfile.TemporaryDirectory(dir=SCRATCH) as td:
                path = os.path.join(td, "trace.pkl.gz")
                create_main_run_output(None, path, {0: res})
                with gzip.GzipFile(path, "rb") as fh:
                    back = pickle.load(fh)
    except Exception as e:
        raise crash_violation("run", e, tags)
    finally:
        prun.Timer = real_timer
    trace = back[0]["trace"]
    iters = [e["iter"] for e in trace]
    if max_time == float("inf"):
        expected = [0] + [i for i in range(case["iters"]) if i % case["thin"] == 0]
    else:
        # model of the documented time limit with the unit-time clock: burn-in stops once the elapsed time exceeds the
        # limit; the main loop records iteration i if it is a multiple of `thin` and stops after the first iteration
        # that starts with elapsed >= limit
        e = 0.0
        for i in range(case["burnin"]):
            stop = e > max_time
            e += 1.0
            if stop:
                break
        expected = [0]
        for i in range(case["iters"]):
            if i % case["thin"] == 0:
                expected.append(i)
            if e >= max_time:
                break
            e += 1.0
    if iters != expected:
        raise Violation("trace/iterations", "recorded iterations %r, expected %r (iters=%d thin=%d burnin=%d time limit=%s in unit-time blocks)" % (iters, expected, case["iters"], case["thin"], case["burnin"], case["max_time"]), tags)
    alphas = []
    for j, e in enumerate(trace):
        try:
            t = Tree.from_dict(e["tree"])
            pts = sorted(dp.idx for dp in t.data)
        except Exception as ex:
            raise crash_violation("trace/restore", ex, tags)
        if pts != list(range(n)):
            raise Violation("trace/data", "entry %d holds data %r, expected all of 0..%d once" % (j, pts, n - 1), tags)
        a = float(e["alpha"])
        alphas.append(a)
        lp1 = float(TreeJointDistribution(FSCRPDistribution(a)).log_p_one(t))
        if not abs(lp1 - float(e["log_p_one"])) <= 1e-8 * max(1.0, abs(lp1)):
            raise Violation(
                "trace/log_p_one",
                "entry %d (iter %d): recorded log_p_one %.12g, recomputed under recorded alpha %.6g: %.12g" % (j, e["iter"], float(e["log_p_one"]), a, lp1),
                dict(tags, entry=j),
            )
        if not case["conc_update"] and a != case["alpha"]:
            raise Violation("trace/alpha", "concentration update is off but entry %d records alpha %r != %r" % (j, a, case["alpha"]), tags)
    changed = len(set(alphas)) > 1
    classes = ["kind:run", "prop:" + case["proposal"], "conc:on" if case["conc_update"] else "conc:off", "out" if case["outlier_prob"] > 0 else "noout"]
    if changed:
        classes.append("alpha-changed")
    if max_time != float("inf"):
        classes.append("time-limited")
    if case["thin"] > 1:
        classes.append("thin>1")
    return Outcome(
        nontrivial=len(trace) >= 3 and (changed or not case["conc_update"]),
        classes=tuple(classes),
        info=dict(kind="run", config={k: v for k, v in case.items() if k != "values"}, recorded_iters=iters),
        weight=len(trace),
    )
