"""C20 — an interrupted or truncated trace file is never read as a valid result.

Fault enumeration: for every generated trace (synthetic multi-chain traces from the C11 generator and real traces from
run_phyclone_chain) EVERY byte prefix 0..len-1 of the written file is fed to every summary command (map in both modes,
consensus in both weightings, topology report with archive).  Oracle: the command raises / fails, or its outputs are
identical to those produced from the complete file (tables and Newick byte-identical; archive compared member by member).
Real 2-chain runs (`extra`): a disk-full fault injected into the final write; the complete trace cut at every offset where
a compressed block could start (gzip magic); a crash between two writes to the output path of a clustered run (second
opening of the output for writing fails) - what is left must be rejected or give the complete run's results.
"""
import contextlib
import io
import os
import tempfile

import numpy as np
from hypothesis import strategies as st

from vp import gen, tracegen as tg
from vp.common import SCRATCH, Outcome, Violation

PROPERTY = "C20"
LEVEL = "fault_enumeration"
SHRINK = False
RULE = (
    "Hypothesis draws a trace (1-3 chains, 1-6 entries each, synthetic or produced by a real seeded chain run); "
    "`evaluations` counts traces. For each trace EVERY prefix length 0..len-1 of the file is enumerated (exhaustive per "
    "trace) and fed to 5 command variants; `inner_evaluations` counts those (prefix, command) runs. Non-trivial trace: "
    "more than one byte and the complete file is summarisable; distinct = hash of the trace description."
)
ASSUMPTIONS = [
    "a crash during the single sequential write, or a later truncation, leaves a byte prefix of the complete file (no rename, no in-place update)",
    "prefixes inside the 8-byte gzip trailer may decode completely; then outputs must equal the full file's",
]


@st.composite
def _case(draw):
    if draw(st.sampled_from([False, False, True])):
        from vp.checks.c15 import _config

        cfg = draw(_config())
        cfg["iters"] = min(cfg["iters"], 4)
        return dict(kind="real", cfg=cfg)
    ds = draw(tg.st_dataset(n_min=1, n_max=4))
    pool = [draw(gen.st_mtree(indices=list(range(ds["n"])), outliers=True, max_outliers=ds["n"])) for _ in range(draw(st.integers(1, 3)))]
    ent = draw(tg.st_entries(len(pool), max_chains=3, max_entries=6))
    return dict(kind="synthetic", ds=ds, pool=pool, ent=ent)


def strategy(ctx):
    return _case()


def budget(ctx):
    return dict(max_examples=ctx.pick(64, 640), shards=16)


def warmup():
    from vp.checks import c11

    c11.warmup()


def _commands(trace, outdir):
    """returns list of (name, callable) each writing into outdir and returning the output paths"""
    from phyclone.process_trace import write_consensus_results, write_map_results, write_topology_report

    def p(n):
        return os.path.join(outdir, n)

    return [
        ("map", lambda: write_map_results(trace, p("m.tsv"), p("m.nwk")), ["m.tsv", "m.nwk"]),
        ("map-frequency", lambda: write_map_results(trace, p("f.tsv"), p("f.nwk"), map_type="frequency"), ["f.tsv", "f.nwk"]),
        ("consensus", lambda: write_consensus_results(trace, p("c.tsv"), p("c.nwk"), consensus_threshold=0.5), ["c.tsv", "c.nwk"]),
        ("consensus-counts", lambda: write_consensus_results(trace, p("k.tsv"), p("k.nwk"), consensus_threshold=0.5, weight_type="counts"), ["k.tsv", "k.nwk"]),
        ("topology-report", lambda: write_topology_report(trace, p("r.tsv"), topologies_archive=p("r.tar.gz")), ["r.tsv", "r.tar.gz"]),
    ]


def _collect(outdir, names):
    out = {}
    for n in names:
        path = os.path.join(outdir, n)
        if not os.path.exists(path):
            out[n] = None
        elif n.endswith(".tar.gz"):
            try:
                out[n] = tg.archive_members(path)
            except Exception as e:
                out[n] = "unreadable:%s" % type(e).__name__
        else:
            with open(path, "rb") as f:
                out[n] = f.read()
    return out


def _run(trace, outdir):
    res = {}
    for name, fn, outs in _commands(trace, outdir):
        for n in outs:
            with contextlib.suppress(FileNotFoundError):
                os.remove(os.path.join(outdir, n))
        try:
            with contextlib.redirect_stdout(io.StringIO()):
                fn()
        except BaseException as e:  # SystemExit included: failing is allowed
            if isinstance(e, KeyboardInterrupt):
                raise
            res[name] = ("error", type(e).__name__)
            continue
        res[name] = ("ok", _collect(outdir, outs))
    return res


def evaluate(case):
    os.makedirs(SCRATCH, exist_ok=True)
    with tempfile.TemporaryDirectory(dir=SCRATCH) as td:
        return _evaluate(case, td)


def _evaluate(case, td):
    if case.get("kind") == "write-fault":
        r = _fault_case(case["cfg"])
        if not r["ok"]:
            raise Violation("partial-trace-accepted/after-write-fault/" + r["command"], "write fault left a partial but accepted trace", dict(command=r["command"], kind="write-fault"))
        return Outcome(nontrivial=True, classes=("kind:write-fault",))
    trace = os.path.join(td, "trace.pkl.gz")
    if case["kind"] == "real":
        from phyclone.process_trace import create_main_run_output
        from phyclone.run import run_phyclone_chain

        c = case["cfg"]
        values = gen.make_values(c["n"], c["dims"], c["G"], c["values"]["seed"], c["values"]["regime"], c["values"]["scale"])
        dd = gen.make_datapoints(values, outlier_prior=c["outlier_prob"])
        data = [dd[i] for i in range(c["n"])]
        with contextlib.redirect_stdout(io.StringIO()):
            res = run_phyclone_chain(c["burnin"], c["conc_update"], c["alpha"], data, float("inf"), c["iters"], c["N"], 1, 1, c["outlier_prob"], 10, c["proposal"], c["thr"], np.random.default_rng(c["seed"]), ["s%d" % i for i in range(c["dims"])], c["thin"], 0, c["subtree_prob"])
            create_main_run_output(None, trace, {0: res})
    else:
        tg.write_trace(case["ds"], case["pool"], case["ent"], trace, td)
    with open(trace, "rb") as f:
        blob = f.read()
    outdir = os.path.join(td, "out")
    os.makedirs(outdir)
    ref = _run(trace, outdir)
    for name, r in ref.items():
        if r[0] != "ok":
            # the complete file itself cannot be summarised: not this property's subject (C12); skip the trace
            return Outcome(nontrivial=False, classes=("complete-file-not-summarisable:%s" % name,))
    # "...or the file is later truncated": the prefixes overwrite the very path that was summarised while complete,
    # in the same process, so results remembered from the complete file cannot stand in for reading the file
    part = trace
    accepted = 0
    rejected = 0
    order = list(range(len(blob) - 1, -1, -1)) if len(blob) % 2 else list(range(len(blob)))
    for L in order:
        with open(part, "wb") as f:
            f.write(blob[:L])
        got = _run(part, outdir)
        for name, r in got.items():
            if r[0] == "error":
                rejected += 1
                continue
            accepted += 1
            if L < len(blob) - 64:
                # more than the gzip trailer and the last deflate bytes are missing: the file cannot contain every entry,
                # so a successful summary (even one equal to the complete file's) was not read from what is on disk
                raise Violation(
                    "partial-trace-accepted/" + name,
                    "%s succeeded on a file holding only the first %d of %d bytes of the trace (results %s the complete file's)" % (name, L, len(blob), "equal to" if r[1] == ref[name][1] else "different from"),
                    dict(command=name, kind=case["kind"]),
                    dict(prefix=L, size=len(blob)),
                )
            if r[1] != ref[name][1]:
                diff = [n for n in r[1] if r[1][n] != ref[name][1][n]]
                raise Violation(
                    "partial-trace-accepted/" + name,
                    "%s on the first %d of %d bytes of the trace succeeded and produced results that differ from the complete file's (%r)" % (name, L, len(blob), diff),
                    dict(command=name, kind=case["kind"]),
                    dict(prefix=L, size=len(blob)),
                )
    classes = ["kind:" + case["kind"], "size<=2k" if len(blob) <= 2048 else "size>2k"]
    if accepted:
        classes.append("prefix-accepted-with-identical-output")
    return Outcome(nontrivial=len(blob) > 1, classes=tuple(classes), key=None, info=dict(kind=case["kind"], size=len(blob), prefixes=len(blob), rejected_runs=rejected, accepted_identical_runs=accepted), weight=len(blob) * 5)


def _run_with_write_fault(cfg, td, fault_after=None, fault_open=None):
    """phyclone.run.run in-process (2 chains) with every gzip write counted; when `fault_after` is given the write that
    crosses that many payload bytes raises ENOSPC (disk full), as a crash point inside the trace write at the end of a run.
    Returns (bytes written, exception or None)."""
    import errno
    import gzip

    import phyclone.run as prun

    from vp import pyclone_oracle as po

    inp = os.path.join(td, "in.tsv")
    po.write_table(cfg["rows"], inp)
    out = os.path.join(td, "trace.pkl.gz")
    counter = [0]
    real_write = gzip.GzipFile.write

    def write(self, data):
        counter[0] += len(data)
        if fault_after is not None and counter[0] > fault_after:
            raise OSError(errno.ENOSPC, "No space left on device (injected)")
        return real_write(self, data)

    real_init = gzip.GzipFile.__init__
    opens = [0]

    def init(self, filename=None, mode=None, *a, **k):
        if mode and mode[0] in "wax":
            opens[0] += 1
            if fault_open is not None and opens[0] >= fault_open:
                # the process dies after one complete write and before the next one (a crash point BETWEEN writes)
                raise OSError(errno.EIO, "injected: killed before write number %d" % opens[0])
        return real_init(self, filename, mode, *a, **k)

    gzip.GzipFile.write = write
    gzip.GzipFile.__init__ = init
    cf = None
    if cfg.get("clusters"):
        cf = os.path.join(td, "clusters.tsv")
        po.write_clusters(cfg["clusters"], cf)
    exc = None
    try:
        with contextlib.redirect_stdout(io.StringIO()):
            prun.run(inp, out, cluster_file=cf, burnin=1, num_iters=cfg["iters"], num_particles=3, grid_size=11, seed=cfg["seed"], num_chains=2, proposal=cfg["proposal"], print_freq=1000, density="binomial", outlier_prob=cfg["outlier_prob"])
    except BaseException as e:
        if isinstance(e, KeyboardInterrupt):
            raise
        exc = e
    finally:
        gzip.GzipFile.write = real_write
        gzip.GzipFile.__init__ = real_init
    return counter[0], exc, out


def _fault_case(cfg):
    """crash inside the final trace write of a real multi-chain run: whatever is left at the output path must be
    rejected by every summary command or give exactly the complete run's results"""
    os.makedirs(SCRATCH, exist_ok=True)
    with tempfile.TemporaryDirectory(dir=SCRATCH) as td:
        d1, d2 = os.path.join(td, "full"), os.path.join(td, "fault")
        os.makedirs(d1)
        os.makedirs(d2)
        total, exc, full = _run_with_write_fault(cfg, d1)
        if exc is not None:
            from vp.common import HarnessError

            raise HarnessError("reference multi-chain run failed: %r" % (exc,))
        o1 = os.path.join(d1, "out")
        os.makedirs(o1)
        ref = _run(full, o1)
        # structural crash points of the REAL multi-chain trace: every offset at which a gzip member could start (the
        # two magic bytes), i.e. where a writer that emitted one compressed block per chain would have a clean boundary
        with open(full, "rb") as fh:
            blob = fh.read()
        cuts = [i for i in range(1, len(blob) - 1) if blob[i : i + 2] == b"\x1f\x8b"][:40]
        for c in cuts:
            dc = os.path.join(td, "cut_%d" % c)
            os.makedirs(os.path.join(dc, "out"))
            fcut = os.path.join(dc, "t.pkl.gz")
            with open(fcut, "wb") as fh:
                fh.write(blob[:c])
            for name, r in _run(fcut, os.path.join(dc, "out")).items():
                if r[0] == "ok" and (ref[name][0] != "ok" or r[1] != ref[name][1] or c < len(blob) - 64):
                    return dict(ok=False, command=name, size=c, full=len(blob), what="cut")
        # a crash between two writes (only reachable if the writer opens the output more than once)
        d3 = os.path.join(td, "between")
        os.makedirs(os.path.join(d3, "out"))
        _, exc3, part3 = _run_with_write_fault(cfg, d3, fault_open=2)
        if exc3 is not None and os.path.exists(part3):
            for name, r in _run(part3, os.path.join(d3, "out")).items():
                if r[0] == "ok" and (ref[name][0] != "ok" or r[1] != ref[name][1]):
                    return dict(ok=False, command=name, size=os.path.getsize(part3), full=len(blob), what="between")
        written, exc, part = _run_with_write_fault(cfg, d2, fault_after=int(total * cfg["frac"]))
        if exc is None:
            return dict(ok=True, note="fault not reached (%d of %d bytes)" % (written, total))
        if not os.path.exists(part):
            return dict(ok=True, note="no file left at the output path")
        o2 = os.path.join(d2, "out")
        os.makedirs(o2)
        got = _run(part, o2)
        for name, r in got.items():
            if r[0] == "ok" and ref[name][0] == "ok" and r[1] != ref[name][1]:
                return dict(ok=False, command=name, size=os.path.getsize(part), full=os.path.getsize(full))
        return dict(ok=True, note="partial file rejected or identical (%d bytes left, complete file %d)" % (os.path.getsize(part), os.path.getsize(full)))


def extra(ctx, stats):
    from vp.common import case_hash, derive_seed

    n_fault = ctx.pick(1, 4)
    for j in range(n_fault):
        sd = derive_seed(ctx.seed, "c20fault", j)
        rows = []
        for m in range(4):
            for smp in range(2):
                alt = 10 + (sd >> (3 * m + smp)) % 60
                rows.append(dict(mutation_id="m%d" % m, sample_id="s%d" % smp, ref_counts=100 - alt, alt_counts=alt, major_cn=1 + (m % 2), minor_cn=1, normal_cn=2))
        cfg = dict(rows=rows, iters=6 + j, seed=sd % 100000, proposal=["semi-adapted", "fully-adapted", "bootstrap"][j % 3], outlier_prob=[0.0, 0.1][j % 2], frac=[0.9, 0.6, 0.97, 0.75][j % 4])
        if j % 2 == 0:
            cfg["clusters"] = {"m0": 0, "m1": 0, "m2": 1, "m3": 2}
        r = _fault_case(cfg)
        stats.evaluations += 1
        stats.count("kind:write-fault-in-real-multichain-run")
        stats.nontrivial_keys.add(case_hash(cfg))
        stats.notes.append("write fault case %d: %s" % (j, r.get("note") or r))
        if not r["ok"] and r.get("what") == "between":
            stats.violations.append(dict(component="partial-trace-accepted/between-writes/" + r["command"], message="a run killed before its second write to the output path left a file (%d bytes; complete trace %d) that %s summarises successfully with results different from the complete run's" % (r["size"], r["full"], r["command"]), case=cfg, tags=dict(command=r["command"])))
            continue
        if not r["ok"] and r.get("what") == "cut":
            stats.violations.append(dict(component="partial-trace-accepted/block-boundary/" + r["command"], message="the trace of a real multi-chain run cut at byte %d of %d (an offset where a compressed block could start) is summarised successfully by %s" % (r["size"], r["full"], r["command"]), case=cfg, tags=dict(command=r["command"])))
            continue
        if not r["ok"]:
            stats.violations.append(dict(component="partial-trace-accepted/after-write-fault/" + r["command"], message="a multi-chain run whose final trace write failed with ENOSPC left a file (%d bytes; complete trace %d) that %s summarises successfully with results different from the complete run's" % (r["size"], r["full"], r["command"]), tags=dict(command=r["command"], kind="write-fault"), case=dict(kind="write-fault", cfg=cfg), detail={}))
    stats.exhaustive = True
    stats.notes.append("exhaustive refers to the inner space: all byte prefixes of each generated trace x all 5 command variants; the set of traces is sampled")
