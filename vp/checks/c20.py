"""C20 — an interrupted or truncated trace file is never read as a valid result.

Fault enumeration: for every generated trace (synthetic multi-chain traces from the C11 generator and real traces from
run_phyclone_chain) EVERY byte prefix 0..len-1 of the written file is fed to every summary command (map in both modes,
consensus in both weightings, topology report with archive).  Oracle: the command raises / fails, or its outputs are
identical to those produced from the complete file (tables and Newick byte-identical; archive compared member by member).
"""
import contextlib
import io
import os
import tempfile

import numpy as np
from hypothesis import strategies as st

from vp import gen, tracegen as tg
from vp.common import SCRATCH, Outcome, Violation

PROPERTY = "C20"
LEVEL = "fault_enumeration"
SHRINK = False
RULE = (
    "Hypothesis draws a trace (1-3 chains, 1-6 entries each, synthetic or produced by a real seeded chain run); "
    "`evaluations` counts traces. For each trace EVERY prefix length 0..len-1 of the file is enumerated (exhaustive per "
    "trace) and fed to 5 command variants; `inner_evaluations` counts those (prefix, command) runs. Non-trivial trace: "
    "more than one byte and the complete file is summarisable; distinct = hash of the trace description."
)
ASSUMPTIONS = [
    "a crash during the single sequential write, or a later truncation, leaves a byte prefix of the complete file (no rename, no in-place update)",
    "prefixes inside the 8-byte gzip trailer may decode completely; then outputs must equal the full file's",
]


@st.composite
def _case(draw):
    if draw(st.sampled_from([False, False, True])):
        from vp.checks.c15 import _config

        cfg = draw(_config())
        cfg["iters"] = min(cfg["iters"], 4)
        return dict(kind="real", cfg=cfg)
    ds = draw(tg.st_dataset(n_min=1, n_max=4))
    pool = [draw(gen.st_mtree(indices=list(range(ds["n"])), outliers=True, max_outliers=ds["n"])) for _ in range(draw(st.integers(1, 3)))]
    ent = draw(tg.st_entries(len(pool), max_chains=3, max_entries=6))
    return dict(kind="synthetic", ds=ds, pool=pool, ent=ent)


def strategy(ctx):
    return _case()


def budget(ctx):
    return dict(max_examples=ctx.pick(64, 640), shards=16)


def warmup():
    from vp.checks import c11

    c11.warmup()


def _commands(trace, outdir):
    """returns list of (name, callable) each writing into outdir and returning the output paths"""
    from phyclone.process_trace import write_consensus_results, write_map_results, write_topology_report

    def p(n):
        return os.path.join(outdir, n)

    return [
        ("map", lambda: write_map_results(trace, p("m.tsv"), p("m.nwk")), ["m.tsv", "m.nwk"]),
        ("map-frequency", lambda: write_map_results(trace, p("f.tsv"), p("f.nwk"), map_type="frequency"), ["f.tsv", "f.nwk"]),
        ("consensus", lambda: write_consensus_results(trace, p("c.tsv"), p("c.nwk"), consensus_threshold=0.5), ["c.tsv", "c.nwk"]),
        ("consensus-counts", lambda: write_consensus_results(trace, p("k.tsv"), p("k.nwk"), consensus_threshold=0.5, weight_type="counts"), ["k.tsv", "k.nwk"]),
        ("topology-report", lambda: write_topology_report(trace, p("r.tsv"), topologies_archive=p("r.tar.gz")), ["r.tsv", "r.tar.gz"]),
    ]


def _collect(outdir, names):
    out = {}
    for n in names:
        path = os.path.join(outdir, n)
        if not os.path.exists(path):
            out[n] = None
        elif n.endswith(".tar.gz"):
            try:
                out[n] = tg.archive_members(path)
            except Exception as e:
                out[n] = "unreadable:%s" % type(e).__name__
        else:
            with open(path, "rb") as f:
                out[n] = f.read()
    return out


def _run(trace, outdir):
    res = {}
    for name, fn, outs in _commands(trace, outdir):
        for n in outs:
            with contextlib.suppress(FileNotFoundError):
                os.remove(os.path.join(outdir, n))
        try:
            with contextlib.redirect_stdout(io.StringIO()):
                fn()
        except BaseException as e:  # SystemExit included: failing is allowed
            if isinstance(e, KeyboardInterrupt):
                raise
            res[name] = ("error", type(e).__name__)
            continue
        res[name] = ("ok", _collect(outdir, outs))
    return res


def evaluate(case):
    os.makedirs(SCRATCH, exist_ok=True)
    with tempfile.TemporaryDirectory(dir=SCRATCH) as td:
        return _evaluate(case, td)


def _evaluate(case, td):
    trace = os.path.join(td, "trace.pkl.gz")
    if case["kind"] == "real":
        from phyclone.process_trace import create_main_run_output
        from phyclone.run import run_phyclone_chain

        c = case["cfg"]
        values = gen.make_values(c["n"], c["dims"], c["G"], c["values"]["seed"], c["values"]["regime"], c["values"]["scale"])
        dd = gen.make_datapoints(values, outlier_prior=c["outlier_prob"])
        data = [dd[i] for i in range(c["n"])]
        with contextlib.redirect_stdout(io.StringIO()):
            res = run_phyclone_chain(c["burnin"], c["conc_update"], c["alpha"], data, float("inf"), c["iters"], c["N"], 1, 1, c["outlier_prob"], 10, c["proposal"], c["thr"], np.random.default_rng(c["seed"]), ["s%d" % i for i in range(c["dims"])], c["thin"], 0, c["subtree_prob"])
            create_main_run_output(None, trace, {0: res})
    else:
        tg.write_trace(case["ds"], case["pool"], case["ent"], trace, td)
    with open(trace, "rb") as f:
        blob = f.read()
    outdir = os.path.join(td, "out")
    os.makedirs(outdir)
    ref = _run(trace, outdir)
    for name, r in ref.items():
        if r[0] != "ok":
            # the complete file itself cannot be summarised: not this property's subject (C12); skip the trace
            return Outcome(nontrivial=False, classes=("complete-file-not-summarisable:%s" % name,))
    part = os.path.join(td, "part.pkl.gz")
    accepted = 0
    rejected = 0
    for L in range(len(blob)):
        with open(part, "wb") as f:
            f.write(blob[:L])
        got = _run(part, outdir)
        for name, r in got.items():
            if r[0] == "error":
                rejected += 1
                continue
            accepted += 1
            if r[1] != ref[name][1]:
                diff = [n for n in r[1] if r[1][n] != ref[name][1][n]]
                raise Violation(
                    "partial-trace-accepted/" + name,
                    "%s on the first %d of %d bytes of the trace succeeded and produced results that differ from the complete file's (%r)" % (name, L, len(blob), diff),
                    dict(command=name, kind=case["kind"]),
                    dict(prefix=L, size=len(blob)),
                )
    classes = ["kind:" + case["kind"], "size<=2k" if len(blob) <= 2048 else "size>2k"]
    if accepted:
        classes.append("prefix-accepted-with-identical-output")
    return Outcome(nontrivial=len(blob) > 1, classes=tuple(classes), key=None, info=dict(kind=case["kind"], size=len(blob), prefixes=len(blob), rejected_runs=rejected, accepted_identical_runs=accepted), weight=len(blob) * 5)


def extra(ctx, stats):
    stats.exhaustive = True
    stats.notes.append("exhaustive refers to the inner space: all byte prefixes of each generated trace x all 5 command variants; the set of traces is sampled")
