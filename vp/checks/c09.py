"""C09 — data orders are drawn uniformly from those compatible with the tree.

Generator: MTree (0–4+ clones, 0–3 outliers, <= 7 points) built into a real Tree.
Oracle: brute-force set L of linear extensions (all permutations filtered by
"descendant data before ancestor data", outliers free).  E1 gives the *exact* sampling law
of RootPermutationDistribution.sample: support == L, each order has probability 1/|L|
(1e-12), and log_pdf(tree) == -log|L| (1e-9).
Call sites: the order the burn-in and particle-Gibbs samplers hand to their SMC pass (recorded at the SMC sampler's
constructor, pass stopped there) must be one of the compatible orders.
"""
import math

import numpy as np
from hypothesis import strategies as st

from vp import gen
from vp.common import Outcome, Violation, crash_violation
from vp.enumrng import EnumRNG, explore
from vp.model import MTree, count_linear_extensions_formula, linear_extensions, to_tree_grid

PROPERTY = "C09"
LEVEL = "exploration"
RULE = (
    "Hypothesis draws a clone tree by construction (set partition via restricted-growth string, forest via "
    "parent-among-earlier in a drawn order, outlier flags; <=7 data points). Per case the harness brute-forces all "
    "linear extensions and enumerates every outcome of the sampler's shuffles exactly (EnumRNG). Non-trivial: |L| >= 2. "
    "Distinct: canonical (clades, outliers) key with data labels."
)
ASSUMPTIONS = [
    "the sampler draws only through Generator.shuffle (any other draw method used by a refactor must exist on EnumRNG or the harness errors out with exit 2)",
    "trees with <= 7 data points",
]


@st.composite
def _case(draw, n_max):
    n = draw(st.sampled_from([5, 4, 6, 3, n_max, 2, 1, 0]))
    mt = draw(gen.st_mtree(indices=list(range(n)), outliers=True, max_outliers=3))
    return dict(mtree=mt, sib=draw(st.lists(st.integers(0, 7), min_size=1, max_size=4)), rep=draw(gen.st_repr()))


def strategy(ctx):
    return _case(ctx.pick(6, 7))


def budget(ctx):
    return dict(max_examples=ctx.pick(1600, 60000), shards=16)


def warmup():
    from phyclone.smc.utils import RootPermutationDistribution  # noqa

    evaluate(dict(mtree=dict(blocks=[[0], [1]], parent=[-1, 0], outliers=[]), sib=[0]))


class _Stop(Exception):
    pass


def _call_sites(tree, mt, Lset, case, tags):
    """The order every sampler actually hands to its SMC pass (burn-in, whole-tree particle Gibbs): the constructors of the
    SMC samplers are replaced by recorders that stop the pass right there, so only the drawn order is observed."""
    import phyclone.mcmc.particle_gibbs as pgm
    import phyclone.smc.samplers.unconditional as um
    from phyclone.smc.kernels import SemiAdaptedKernel
    from phyclone.smc.utils import RootPermutationDistribution
    from phyclone.tree import FSCRPDistribution, TreeJointDistribution

    seed = sum((i + 1) * x for i, x in enumerate(case.get("sib") or [0])) + len(Lset)
    rng = np.random.default_rng(seed)
    kernel = SemiAdaptedKernel(TreeJointDistribution(FSCRPDistribution(1.0)), rng, outlier_proposal_prob=0.1 if mt.outliers else 0.0, perm_dist=RootPermutationDistribution())
    got = []

    def rec_uncond(data_sigma, *a, **k):
        got.append(("burn-in", tuple(dp.idx for dp in data_sigma)))
        raise _Stop()

    def rec_cond(tree_, data_sigma, *a, **k):
        got.append(("particle-gibbs", tuple(dp.idx for dp in data_sigma)))
        raise _Stop()

    saved = (um.SMCSampler, pgm.ConditionalSMCSampler)
    um.SMCSampler, pgm.ConditionalSMCSampler = rec_uncond, rec_cond
    try:
        for _ in range(3):
            for make in (lambda: um.UnconditionalSMCSampler(kernel, num_particles=2), lambda: pgm.ParticleGibbsTreeSampler(kernel, rng, num_particles=2)):
                try:
                    make().sample_tree(tree.copy())
                except _Stop:
                    pass
                except Exception as e:
                    raise crash_violation("call-site", e, tags)
    finally:
        um.SMCSampler, pgm.ConditionalSMCSampler = saved
    if len(got) != 6:
        from vp.common import HarnessError

        raise HarnessError("call-site recorders saw %d SMC passes for 6 sampler calls" % len(got))
    for who, order in got:
        if order not in Lset:
            raise Violation("call-site/incompatible-order", "the %s sampler started its SMC pass with the data order %r, which is not a descendants-before-ancestors order of all data points of %r" % (who, order, mt), dict(tags, sampler=who), dict(order=list(order)))


def evaluate(case):
    from phyclone.smc.utils import RootPermutationDistribution

    mt = MTree.from_json(case["mtree"])
    n = len(mt.all_data())
    values = {i: np.zeros((1, 2)) for i in mt.all_data()}
    data = gen.make_datapoints(values)
    rep = case.get("rep")
    if rep is None:
        tree = to_tree_grid(mt, data, (1, 2), sibling_perm=case.get("sib"))
    else:
        # the same tree reached through another construction history (SMC-style, grafted, serialised, relabelled)
        tree = gen.build_repr(mt, data, (1, 2), dict(rep, sib=case.get("sib") or rep.get("sib")))
    L = linear_extensions(mt)
    if len(L) != count_linear_extensions_formula(mt):
        from vp.common import HarnessError

        raise HarnessError("oracle self-check: brute-force count %d != formula %d for %r" % (len(L), count_linear_extensions_formula(mt), mt))
    Lset = set(L)
    tags = dict(n=n, n_outliers=len(mt.outliers), n_clones=mt.k, n_roots=len(mt.roots()))
    rng = EnumRNG()
    try:
        res = explore(lambda: tuple(dp.idx for dp in RootPermutationDistribution.sample(tree, rng)), rng, max_leaves=200000)
        log_pdf = float(RootPermutationDistribution.log_pdf(tree))
    except Exception as e:
        if isinstance(e, (Violation,)):
            raise
        raise crash_violation("crash", e, tags)
    law = {}
    for p, o in res:
        law[o] = law.get(o, 0.0) + p
    tot = sum(law.values())
    if abs(tot - 1) > 1e-12:
        from vp.common import HarnessError

        raise HarnessError("EnumRNG probabilities sum to %r" % tot)
    bad = [o for o in law if o not in Lset]
    if bad:
        raise Violation("sample/incompatible-order", "sampler produced order %r violating descendants-before-ancestors for %r" % (bad[0], mt), tags, dict(order=bad[0]))
    missing = [o for o in L if o not in law]
    if missing:
        raise Violation("sample/unreachable-order", "compatible order %r can never be drawn for %r (|L|=%d, support=%d)" % (missing[0], mt, len(L), len(law)), tags, dict(order=missing[0]))
    worst = max(abs(p - 1.0 / len(L)) for p in law.values())
    if worst > 1e-12:
        raise Violation("sample/non-uniform", "order probabilities deviate from 1/%d by %.3e for %r" % (len(L), worst, mt), tags)
    if not (abs(log_pdf + math.log(len(L))) <= 1e-9):
        raise Violation(
            "log_pdf",
            "log_pdf=%.12g but -log|L|=%.12g (|L|=%d) for %r" % (log_pdf, -math.log(len(L)), len(L), mt),
            tags,
            dict(log_pdf=log_pdf, n_orders=len(L)),
        )
    classes = []
    if n >= 1:
        _call_sites(tree, mt, Lset, case, tags)
        classes.append("call-sites:burn-in+PG+subtree")
    if len(mt.outliers) >= 2:
        classes.append("outliers>=2")
    elif len(mt.outliers) == 1:
        classes.append("outliers=1")
    if len(mt.roots()) >= 2:
        classes.append("multi-root")
    if any(mt.depth(i) >= 2 for i in range(mt.k)):
        classes.append("depth>=3")
    if any(len(b) >= 2 for b in mt.blocks):
        classes.append("clone-size>=2")
    if any(len(mt.children(i)) >= 2 for i in range(mt.k)):
        classes.append("branching")
    if mt.k == 0:
        classes.append("no-clones")
    if case.get("rep"):
        classes.append("rep:" + case["rep"]["style"] + ("+relabel" if case["rep"].get("relabel") else ""))
    return Outcome(nontrivial=len(L) >= 2, classes=tuple(classes), key=mt.jkey(), info=dict(mtree=case["mtree"], n_orders=len(L)), weight=len(res))
