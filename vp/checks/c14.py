"""C14 — memoised recursion and proposal results equal unmemoised computation.

E5 shadow memoisation: the memoised entry points (compute_log_S, _convolve_two_children, the per-parent proposal
distributions of the semi- and fully-adapted kernels, get_cached_new_tree) are wrapped by the harness; every call goes
to the memoised function AND to its `__wrapped__` original on the same arguments at that moment, and the two results are
compared (arrays 1e-10; proposal distributions: same support, same log-probability per tree, same flags; cached new
tree: same key and densities).  Histories are generated: PG / subtree / data-point / prune-regraft sweeps, relabel,
concentration changes with and without a following cache clear, cache clears, switching kernels; plus direct call
streams with permuted / duplicated / bytes-equal children.
"""
import numpy as np
from hypothesis import strategies as st

from vp import gen
from vp.common import HarnessError, Outcome, Violation, crash_violation
from vp.model import tree_key

PROPERTY = "C14"
LEVEL = "exploration"
STRATIFIED = True
RULE = (
    "Hypothesis draws one data set (3-6 points, dims 1-2, grid 5-12, inside the underflow window) and a history of 4-14 "
    "operations (sweeps of the real samplers with a seeded generator, relabel, alpha change with/without cache clear, "
    "clear, kernel switch), or (every fourth shard) a direct call stream of children lists. Every memoised call is "
    "shadowed. Non-trivial: the history contains at least one cache HIT of a proposal cache and one of an array cache "
    "(measured from cache_info deltas). Distinct: hash of the history."
)
ASSUMPTIONS = [
    "functools.wraps/lru_cache expose the unmemoised original as __wrapped__",
    "array tolerance 1e-10 (order-insensitive cache keys legitimately change the summation order)",
    "data inside the underflow window of C02 (moderate/ties)",
]

_installed = False
STATS = {}


def _arrays_agree(r, ref):
    """log-domain 1e-10 on the direct path.  From 1000 grid points the FFT path is used, whose error is absolute
    (about 1e-16 x row peak per operation) and depends on the summation order that an order-insensitive cache key
    legitimately changes; there agreement is required in the linear domain relative to the row peak (1e-8), the
    accuracy C02 states for that path."""
    r = np.asarray(r, dtype=float)
    ref = np.asarray(ref, dtype=float)
    if r.shape != ref.shape:
        return False, -1.0
    if r.ndim >= 1 and r.shape[-1] >= 1000:
        peak = np.max(ref, axis=-1, keepdims=True)
        d = float(np.max(np.abs(np.exp(r - peak) - np.exp(ref - peak))))
        return d <= 1e-8, d
    d = float(np.max(np.abs(r - ref))) if r.size else 0.0
    return bool(np.allclose(r, ref, atol=1e-10, rtol=1e-10)), d


def _bump(tag, hit):
    s = STATS.setdefault(tag, [0, 0])
    s[0] += 1
    s[1] += int(hit)


def _dist_view(pd):
    return {tree_key(h.tree): float(v) for h, v in pd._log_p.items()}


def install():
    """wrap the memoised entry points (process-wide, idempotent)"""
    global _installed
    if _installed:
        return
    import phyclone.smc.kernels.fully_adapted as fa
    import phyclone.smc.kernels.semi_adapted as sa
    import phyclone.tree.tree_node as tn
    import phyclone.tree.utils as tu

    oS = tu.compute_log_S
    if not hasattr(oS, "__wrapped__") or not hasattr(oS, "cache_info"):
        raise HarnessError("compute_log_S is not a memoised function with __wrapped__ any more")

    def sS(children, *a, **k):
        h = oS.cache_info().hits
        r = oS(children, *a, **k)
        hit = oS.cache_info().hits > h
        ref = oS.__wrapped__(np.array(children, order="C"), *a, **k)
        _bump("compute_log_S", hit)
        ok, dev = _arrays_agree(r, ref)
        if not ok:
            raise Violation("memo/compute_log_S", "memoised children recursion differs from the unmemoised result by %.3e (%d children, cache %s)" % (dev, len(children), "hit" if hit else "miss"), dict(fn="compute_log_S", hit=hit))
        return r

    sS.cache_info = oS.cache_info
    sS.cache_clear = oS.cache_clear
    sS.__wrapped__ = oS.__wrapped__
    tn.compute_log_S = sS
    tu.compute_log_S = sS

    oC = tu._convolve_two_children

    def sC(a1, a2, *a, **k):
        h = oC.cache_info().hits
        r = oC(a1, a2, *a, **k)
        hit = oC.cache_info().hits > h
        ref = oC.__wrapped__(a1, a2, *a, **k)
        _bump("convolve_two", hit)
        ok, dev = _arrays_agree(r, ref)
        if not ok:
            raise Violation("memo/convolve_two_children", "memoised pairwise convolution differs from the unmemoised result by %.3e (cache %s)" % (dev, "hit" if hit else "miss"), dict(fn="convolve", hit=hit))
        return r

    sC.cache_info = oC.cache_info
    sC.cache_clear = oC.cache_clear
    sC.__wrapped__ = oC.__wrapped__
    tu._convolve_two_children = sC

    def shadow_prop(mod, name, tag):
        o = getattr(mod, name)

        def s(data_point, kernel, parent_particle, opp, alpha):
            bt = None
            if parent_particle is not None and len(parent_particle._built_tree):
                bt = parent_particle._built_tree[0]
            h = o.cache_info().hits
            r = o(data_point, kernel, parent_particle, opp, alpha)
            hit = o.cache_info().hits > h
            after = list(parent_particle._built_tree) if parent_particle is not None else None
            if parent_particle is not None:
                parent_particle._built_tree.append(bt if bt is not None else parent_particle.tree)
            ref = o.__wrapped__(data_point, kernel, parent_particle, opp, alpha)
            if parent_particle is not None:
                parent_particle._built_tree.clear()
                parent_particle._built_tree.extend(after)
            _bump(tag, hit)
            a, b = _dist_view(r), _dist_view(ref)
            t = dict(fn=tag, hit=hit)
            if a.keys() != b.keys():
                raise Violation("memo/%s" % tag, "cached proposal distribution has a different support than a freshly built one (%d vs %d trees; cache %s, alpha=%r)" % (len(a), len(b), "hit" if hit else "miss", alpha), t)
            worst = max(abs(a[k] - b[k]) for k in a) if a else 0.0
            if worst > 1e-10:
                raise Violation("memo/%s" % tag, "cached proposal distribution differs from a freshly built one by %.3e in log-probability (cache %s, alpha=%r, current alpha=%r)" % (worst, "hit" if hit else "miss", alpha, kernel.tree_dist.prior.alpha), t)
            if getattr(r, "parent_is_empty_tree", None) != getattr(ref, "parent_is_empty_tree", None):
                raise Violation("memo/%s" % tag, "cached proposal distribution disagrees on parent_is_empty_tree", t)
            return r

        s.cache_clear = o.cache_clear
        s.cache_info = o.cache_info
        s.__wrapped__ = o.__wrapped__
        setattr(mod, name, s)

    shadow_prop(sa, "_get_cached_semi_proposal_dist", "semi_proposal")
    shadow_prop(fa, "_get_cached_full_proposal_dist", "full_proposal")

    oN = sa.get_cached_new_tree

    def sN(parent_particle, data_point, children, tree_dist, perm_dist):
        h = oN.cache_info().hits
        r = oN(parent_particle, data_point, children, tree_dist, perm_dist)
        hit = oN.cache_info().hits > h
        ref = oN.__wrapped__(parent_particle, data_point, children, tree_dist, perm_dist)
        _bump("new_tree", hit)
        t = dict(fn="new_tree", hit=hit)
        if tree_key(r.tree) != tree_key(ref.tree):
            raise Violation("memo/new_tree", "cached new-clone tree %r differs from a freshly built one %r (children %r; cache %s)" % (tree_key(r.tree), tree_key(ref.tree), sorted(children), "hit" if hit else "miss"), t)
        for f in ("log_p", "log_p_one", "log_pdf"):
            if abs(float(getattr(r, f)) - float(getattr(ref, f))) > 1e-10 * max(1.0, abs(float(getattr(ref, f)))):
                raise Violation("memo/new_tree", "cached new-clone tree has %s=%r, freshly built %r (cache %s)" % (f, getattr(r, f), getattr(ref, f), "hit" if hit else "miss"), t)
        return r

    sN.cache_clear = oN.cache_clear
    sN.cache_info = oN.cache_info
    sN.__wrapped__ = oN.__wrapped__
    sa.get_cached_new_tree = sN
    _installed = True


OPS = ("pg", "subtree", "dp", "prg", "pg", "relabel", "alpha", "alpha_clear", "clear", "switch")
OPS_TWIN = OPS + ("twin", "twin")
# whole-tree and sub-tree sweeps in a row, never a cache clear: what one sweep returns (and the next edits in place) is
# still referenced from the cached proposal distributions
OPS_SWEEPS = ("pg", "subtree", "pg", "subtree", "dp", "relabel", "pg")


OPS_TINY = ("pg", "alpha", "pg", "subtree", "alpha", "dp", "pg", "relabel")
ALPHAS = {
    "ordinary": [0.3, 2.0, 1.0, 5.0, 0.05, 1.0],
    # values the concentration update can return one after the other: its 1e-10 floor, other tiny values, and values that
    # agree to many digits - a cache key must tell all of them apart
    "tiny": [1e-10, 3e-9, 6.5e-9, 2e-3, 1e-10 * (1 + 1e-6), 4e-9],
}
ALPHAS["twin"] = ALPHAS["sweeps"] = ALPHAS["ordinary"]


@st.composite
def _history(draw, alphas="ordinary"):
    ops = OPS_TINY if alphas == "tiny" else (OPS_TWIN if alphas == "twin" else (OPS_SWEEPS if alphas == "sweeps" else OPS))
    return dict(
        alphas=alphas,
        ops=[[draw(st.sampled_from(ops)), draw(st.integers(0, 5))] for _ in range(draw(st.integers(4, 14)))],
        **draw(_history_base(alphas == "sweeps"))
    )


@st.composite
def _history_base(draw, sweeps=False):
    if sweeps:
        return dict(kind="history", n=draw(st.integers(3, 4)), dims=draw(st.sampled_from([1, 2])), G=draw(st.sampled_from([5, 8])), values=draw(gen.st_values_spec(regimes=("moderate", "ties"), max_scale=2.0)),
                    outlier_prior=draw(st.sampled_from([0.1, 0.3])), kernel=draw(st.sampled_from(["semi", "fully"])), N=draw(st.integers(3, 8)), seed=draw(st.integers(0, 2 ** 31 - 1)))
    return dict(
        kind="history",
        n=draw(st.integers(3, 6)),
        dims=draw(st.sampled_from([1, 2])),
        G=draw(st.sampled_from([5, 8, 12])),
        values=draw(gen.st_values_spec(regimes=("moderate", "ties"), max_scale=2.0)),
        outlier_prior=draw(st.sampled_from([0.0, 0.1])),
        kernel=draw(st.sampled_from(["semi", "fully", "bootstrap"])),
        N=draw(st.integers(3, 8)),
        seed=draw(st.integers(0, 2 ** 31 - 1)),
    )


@st.composite
def _stream(draw):
    k = draw(st.integers(2, 5))
    calls = []
    for _ in range(draw(st.integers(3, 12))):
        calls.append(dict(idx=draw(st.lists(st.integers(0, k - 1), min_size=1, max_size=4)), copy=draw(st.booleans()), clear=draw(st.integers(0, 7)) == 0))
    return dict(kind="stream", k=k, dims=draw(st.sampled_from([1, 2])), G=draw(st.sampled_from([4, 9, 1000, 16, 1200])), values=draw(gen.st_values_spec(regimes=("moderate", "ties", "flat"), max_scale=2.0)), calls=calls)


def strategy(ctx, shard=0):
    if shard % 4 == 3:
        return _stream()
    return _history("tiny" if shard % 4 == 1 else ("twin" if shard % 8 == 2 else ("sweeps" if shard % 8 == 6 else "ordinary")))


def budget(ctx):
    return dict(max_examples=ctx.pick(640, 24000), shards=16)


def warmup():
    install()
    evaluate(dict(kind="history", n=3, dims=1, G=5, values=dict(seed=1, regime="moderate", scale=1.0), outlier_prior=0.0, kernel="semi", N=3, seed=1, ops=[["pg", 0], ["dp", 0]]))


def evaluate(case):
    install()
    gen.clear_caches()
    before = {k: list(v) for k, v in STATS.items()}
    if case["kind"] == "stream":
        classes = _run_stream(case)
    else:
        classes = _run_history(case)
    delta = {k: (STATS[k][0] - before.get(k, [0, 0])[0], STATS[k][1] - before.get(k, [0, 0])[1]) for k in STATS}
    arr_hits = delta.get("compute_log_S", (0, 0))[1] + delta.get("convolve_two", (0, 0))[1]
    prop_hits = sum(delta.get(k, (0, 0))[1] for k in ("semi_proposal", "full_proposal", "new_tree"))
    calls = sum(v[0] for v in delta.values())
    for k, (c, h) in delta.items():
        if h:
            classes.append("hit:" + k)
    nontrivial = arr_hits > 0 and (prop_hits > 0 or case["kind"] == "stream" or case.get("kernel") == "bootstrap")
    return Outcome(nontrivial=nontrivial, classes=tuple(sorted(set(classes))), info=dict(case={k: v for k, v in case.items() if k != "values"}, shadowed_calls=calls, hits=dict((k, v[1]) for k, v in delta.items())), weight=calls)


def _run_history(case):
    from phyclone.mcmc import DataPointSampler, ParticleGibbsSubtreeSampler, ParticleGibbsTreeSampler, PruneRegraphSampler
    from phyclone.smc.utils import RootPermutationDistribution
    from phyclone.tree import FSCRPDistribution, Tree, TreeJointDistribution
    from phyclone.utils.dev import clear_proposal_dist_caches
    from vp.exact import kernel_class

    n = case["n"]
    vs = case["values"]
    values = gen.make_values(n, case["dims"], case["G"], vs["seed"], vs["regime"], vs["scale"])
    dd = gen.make_datapoints(values, outlier_prior=case["outlier_prior"])
    data = [dd[i] for i in range(n)]
    out = case["outlier_prior"] > 0
    td = TreeJointDistribution(FSCRPDistribution(1.0))
    rng = np.random.default_rng(case["seed"])
    kinds = ["semi", "fully", "bootstrap"]
    state = dict(kernel=case["kernel"])
    perm = RootPermutationDistribution()
    rng2 = np.random.default_rng(case["seed"] + 1)

    def samplers(rng=rng):
        k = kernel_class(state["kernel"])(td, rng, outlier_proposal_prob=0.1 if out else 0.0, perm_dist=perm)
        return dict(pg=ParticleGibbsTreeSampler(k, rng, num_particles=case["N"]), subtree=ParticleGibbsSubtreeSampler(k, rng, num_particles=case["N"]), dp=DataPointSampler(td, rng, outliers=out), prg=PruneRegraphSampler(td, rng))

    S = samplers()
    tree = Tree.get_single_node_tree(data)
    classes = ["kind:history", "kernel:" + case["kernel"]]
    alpha_changed = False
    for op, a in case["ops"]:
        try:
            if op in ("pg", "subtree", "dp", "prg"):
                tree = S[op].sample_tree(tree)
                if alpha_changed:
                    classes.append("sweep-after-alpha-change")
            elif op == "relabel":
                tree.relabel_nodes()
            elif op in ("alpha", "alpha_clear"):
                td.prior.alpha = ALPHAS[case.get("alphas", "ordinary")][a % 6]
                if case.get("alphas") == "tiny":
                    classes.append("tiny-or-nearly-equal-alpha-values")
                alpha_changed = True
                if op == "alpha_clear":
                    clear_proposal_dist_caches()
                else:
                    classes.append("alpha-change-without-clear")
            elif op == "twin":
                # a second, identically configured kernel with its OWN generator (same distribution objects, no cache
                # clear): whatever the caches hand it, its sweep must not draw from the first kernel's generator
                before_state = rng.bit_generator.state
                tree = samplers(rng2)["pg"].sample_tree(tree)
                if rng.bit_generator.state != before_state:
                    raise Violation("memo/foreign-generator", "a particle-Gibbs sweep run through a second kernel with its own generator advanced the FIRST kernel's generator: cached objects built for one kernel were handed to the other", dict(kernel=state["kernel"]))
                classes.append("twin-kernel-with-own-generator")
            elif op == "clear":
                clear_proposal_dist_caches()
            elif op == "switch":
                state["kernel"] = kinds[a % 3]
                S = samplers()
                classes.append("kernel-switch")
        except (Violation, HarnessError):
            raise
        except Exception as e:
            raise crash_violation("history/" + op, e, dict(op=op))
    return classes


def _run_stream(case):
    import phyclone.tree.tree_node as tn
    import phyclone.tree.utils as tu

    k = case["k"]
    vs = case["values"]
    vals = gen.make_values(k, case["dims"], case["G"], vs["seed"], vs["regime"], vs["scale"])
    classes = ["kind:stream"]
    for c in case["calls"]:
        if c["clear"]:
            tu.compute_log_S.cache_clear()
            tu._convolve_two_children.cache_clear()
            classes.append("array-cache-clear")
        arrs = [vals[i].copy() if c["copy"] else vals[i] for i in c["idx"]]
        if case["G"] >= 1000:
            classes.append("fft-grid")
        if len(set(c["idx"])) < len(c["idx"]):
            classes.append("duplicated-children")
        try:
            tn.compute_log_S(arrs)
            if len(arrs) >= 2:
                tu._convolve_two_children(arrs[0], arrs[1])
                tu._convolve_two_children(arrs[1], arrs[0])
        except (Violation, HarnessError):
            raise
        except Exception as e:
            raise crash_violation("stream", e, {})
    return classes


def extra(ctx, stats):
    """Birthday search over the memo keys: distinct child arrays must not share a cache key.  2.5e5 (quick) / 1.5e6
    (thorough) generated arrays: with 64-bit content digests a collision is astronomically unlikely (2e-9 / 6e-8); a key
    of 32 bits or fewer collides with probability > 0.99.  A collision makes the memoised functions return another
    input's result."""
    from phyclone.utils.utils import NumpyArrayListHasher, NumpyTwoArraysHasher
    from vp.common import case_hash, derive_seed

    n = ctx.pick(250000, 1500000)
    r = np.random.default_rng(derive_seed(ctx.seed, "c14keys"))
    fixed = np.zeros((1, 5))
    seen_pair, seen_list = {}, {}
    base = r.integers(0, 400, size=(n, 2))
    for i in range(n):
        d, a = int(base[i, 0]), int(base[i, 1])
        arr = np.array([[float(d), float(a), float(i % 7), float(d * a), 0.5 * i]])
        kp = NumpyTwoArraysHasher(arr, fixed).h
        kl = NumpyArrayListHasher([arr]).h
        for seen, k, what in ((seen_pair, kp, "pairwise-convolution"), (seen_list, kl, "children-recursion")):
            j = seen.get(k)
            if j is not None:
                stats.violations.append(dict(component="memo/key-collision/" + what, message="two different child arrays (generated #%d and #%d) get the same %s cache key" % (j, i, what), tags=dict(fn=what), case=dict(kind="keys", i=i, j=j, seed=ctx.seed), detail={}))
                stats.evaluations += 1
                return
            seen[k] = i
    stats.evaluations += 1
    stats.inner += n
    stats.count("kind:key-collision-search")
    stats.nontrivial_keys.add(case_hash(["keys", n]))
    stats.notes.append("cache-key birthday search: %d distinct arrays, no shared key" % n)
