"""C19 — a run on valid input completes and records only finite, complete trees.

Generated small valid data sets x the cross-product of CLI-accepted option values with every range boundary forced
(particles 1, threshold 0 and 1, outlier probability 0 / tiny / 0.5 / 1.0, subtree probability 0 and 1, thinning,
burn-in >= 1, time limit 0 or inf, concentration update on/off, three proposals).  Three quarters of the cases drive
run_phyclone_chain in-process on synthetic likelihood grids; one quarter goes through phyclone.run.run on a generated
input table (loader + wiring + trace file).  Oracle: no exception; every recorded entry restores to a tree that passes
the C07 structural invariants, holds every data point exactly once and has a finite log_p_one.
"""
import contextlib
import gzip
import io
import math
import os
import pickle
import tempfile

import numpy as np
from hypothesis import strategies as st

from vp import editmachine as em
from vp import gen
from vp import pyclone_oracle as po
from vp.common import SCRATCH, Outcome, Violation, crash_violation
from vp.model import from_tree

PROPERTY = "C19"
LEVEL = "exploration"
STRATIFIED = True
RULE = (
    "Hypothesis draws a data set (1-5 data points, 1-3 samples, grid 11; synthetic grids or a PyClone input table) and one "
    "value per option from lists that put the range boundaries first; the proposal is stratified over shards. "
    "Non-trivial: >= 2 data points and at least one boundary value in force. Distinct: hash of the configuration."
)
ASSUMPTIONS = [
    "single chain in-process (multi-chain process pools are C18's subject)",
    "grid size 11 (the CLI minimum) to keep cases cheap",
]
PROPOSALS = ("semi-adapted", "fully-adapted", "bootstrap")


class RareDrawGenerator(np.random.Generator):
    """default_rng(seed) stream, except that the `at`-th gamma draw with shape < 1 returns exactly 0.0.  That is a real
    outcome of numpy's generator: for shape 0.01 (the concentration update while the tree has one clone) the variate
    underflows to 0.0 about once per 1000 draws.  Injecting it makes the rare path reachable in a short run."""

    def __init__(self, seed, at):
        super().__init__(np.random.PCG64(seed))
        self._at = at
        self._seen = 0
        self.injected = 0

    def standard_gamma(self, shape, size=None, dtype=np.float64, out=None):
        if np.all(np.asarray(shape) < 1):
            self._seen += 1
            if self._seen - 1 == self._at:
                self.injected += 1
                return 0.0 if size is None else np.zeros(size)
        return super().standard_gamma(shape, size=size, dtype=dtype, out=out)

    def gamma(self, shape, scale=1.0, size=None):
        if np.all(np.asarray(shape) < 1):
            self._seen += 1
            if self._seen - 1 == self._at:
                self.injected += 1
                return 0.0 if size is None else np.zeros(size)
        return super().gamma(shape, scale, size)


@st.composite
def _case(draw, shard):
    via_run = shard % 4 == 3
    via_cli = shard % 8 == 7
    n = draw(st.sampled_from([1, 2, 3, 5, 4]))
    dims = draw(st.sampled_from([1, 2, 3]))
    c = dict(
        kind=("cli" if via_cli else "run") if via_run else "chain",
        n=n,
        dims=dims,
        proposal=PROPOSALS[shard % 3],
        N=draw(st.sampled_from([1, 2, 5, 3])),
        thr=draw(st.sampled_from([1.0, 0.0, 0.5]) | st.floats(0.0, 1.0)),
        outlier_prob=draw(st.sampled_from([0.0, 1.0, 1e-4, 0.5, 0.0]) | st.floats(0.0, 1.0)),
        subtree_prob=draw(st.sampled_from([1.0, 0.0, 0.5]) | st.floats(0.0, 1.0)),
        thin=draw(st.sampled_from([1, 3, 7])),
        burnin=draw(st.sampled_from([1, 2])),
        iters=draw(st.integers(1, 6)),
        max_time=draw(st.sampled_from(["inf", 0.0, "inf"])),
        conc_update=draw(st.booleans()),
        alpha=draw(st.sampled_from([1.0, 0.01, 50.0])),
        seed=draw(st.integers(0, 2 ** 31 - 1)),
        rare_gamma_zero_at=draw(st.sampled_from([None, 0, None, 1, 3])) if not via_run else None,
        G=1001 if (shard % 12 == 5) else 11,
    )
    if c["G"] > 11:
        c["iters"] = min(c["iters"], 2)
        c["N"] = min(c["N"], 3)
    if via_run:
        from vp.checks.c05 import _counts, _row_params

        rows = []
        for m in range(n):
            for s in range(dims):
                major, minor, normal, t, eps = draw(_row_params())
                ref, alt = draw(_counts())
                rows.append(dict(mutation_id="m%d" % m, sample_id="s%d" % s, ref_counts=ref, alt_counts=alt, major_cn=major, minor_cn=minor, normal_cn=normal, tumour_content=t, error_rate=eps))
        c["clusters"] = None
        if n >= 1 and dims >= 2 and draw(st.integers(0, 4)) == 0:
            # a mutation that is homozygously deleted (major_cn 0) in one sample only: the loader documents that such
            # rows, and then the mutation as a whole, are dropped - the run goes ahead on the remaining mutations
            for s in range(dims):
                major, minor, normal, t, eps = draw(_row_params())
                ref, alt = draw(_counts())
                if s == 0:
                    major, minor = 0, 0
                rows.insert(draw(st.integers(0, len(rows))), dict(mutation_id="mdel", sample_id="s%d" % s, ref_counts=ref, alt_counts=alt, major_cn=major, minor_cn=minor, normal_cn=normal, tumour_content=t, error_rate=eps))
            c["partly_deleted"] = True
        c["rows"] = rows
        c["density"] = draw(st.sampled_from(["beta-binomial", "binomial"]))
        c["precision"] = draw(st.sampled_from([400.0, 1.0, 1e4]))
        if not c.get("partly_deleted"):
            c["clusters"] = {"m%d" % m: draw(st.integers(0, 2)) for m in range(n)} if draw(st.sampled_from([False, True])) else None
    else:
        c["values"] = draw(gen.st_values_spec(regimes=("moderate", "spiky", "flat", "ties", "wide")))
    return c


def strategy(ctx, shard=0):
    return _case(shard)


def budget(ctx):
    return dict(max_examples=ctx.pick(480, 28000), shards=24)


def warmup():
    base = dict(kind="chain", n=2, dims=1, N=2, thr=0.5, outlier_prob=0.1, subtree_prob=0.5, thin=1, burnin=1, iters=1, max_time="inf", conc_update=True, alpha=1.0, seed=1, values=dict(seed=1, regime="moderate", scale=1.0))
    for p in PROPOSALS:
        evaluate(dict(base, proposal=p))
        evaluate(dict(base, proposal=p, outlier_prob=0.0))


def evaluate(case):
    gen.clear_caches()
    tags = dict(proposal=case["proposal"], kind=case["kind"], n=case["n"], N=case["N"], thr=case["thr"], outlier_prob=case["outlier_prob"], subtree_prob=case["subtree_prob"])
    max_time = float("inf") if case["max_time"] == "inf" else float(case["max_time"])
    os.makedirs(SCRATCH, exist_ok=True)
    try:
        with contextlib.redirect_stdout(io.StringIO()), tempfile.TemporaryDirectory(dir=SCRATCH) as td:
            if case["kind"] == "chain":
                from phyclone.run import run_phyclone_chain

                vs = case["values"]
                values = gen.make_values(case["n"], case["dims"], case.get("G", 11), vs["seed"], vs["regime"], vs["scale"])
                dd = gen.make_datapoints(values, outlier_prior=case["outlier_prob"])
                data = [dd[i] for i in range(case["n"])]
                rng = np.random.default_rng(case["seed"]) if case.get("rare_gamma_zero_at") is None else RareDrawGenerator(case["seed"], case["rare_gamma_zero_at"])
                res = run_phyclone_chain(case["burnin"], case["conc_update"], case["alpha"], data, max_time, case["iters"], case["N"], 1, 1, case["outlier_prob"], 100, case["proposal"], case["thr"], rng, ["s%d" % i for i in range(case["dims"])], case["thin"], 0, case["subtree_prob"])
                trace = res["trace"]
                n_expected = case["n"]
            else:
                from phyclone.run import run

                inp = os.path.join(td, "in.tsv")
                po.write_table(case["rows"], inp)
                cf = None
                n_expected = case["n"]
                if case["clusters"] is not None:
                    cf = os.path.join(td, "cl.tsv")
                    po.write_clusters(case["clusters"], cf)
                    n_expected = len(set(case["clusters"].values()))
                out = os.path.join(td, "trace.pkl.gz")
                if case["kind"] == "cli":
                    from vp.tracegen import run_cli

                    args = ["run", "-i", inp, "-o", out, "--burnin", str(case["burnin"]), "--num-iters", str(case["iters"]), "--thin", str(case["thin"]), "--num-chains", "1",
                            "--density", case["density"], "--outlier-prob", repr(case["outlier_prob"]), "--proposal", case["proposal"], "--max-time", "inf" if max_time == float("inf") else repr(max_time),
                            "--concentration-update" if case["conc_update"] else "--no-concentration-update", "--concentration-value", repr(case["alpha"]), "--grid-size", "11",
                            "--num-particles", str(case["N"]), "--subtree-update-prob", repr(case["subtree_prob"]), "--precision", repr(case["precision"]), "--resample-threshold", repr(case["thr"]), "--seed", str(case["seed"])]
                    if cf is not None:
                        args += ["--cluster-file", cf]
                    ok, exc = run_cli(args)
                    if not ok:
                        if exc is not None and not isinstance(exc, SystemExit):
                            raise exc
                        raise Violation("cli/exit", "phyclone run exited with an error for accepted option values %r" % (args,), tags)
                else:
                  run(inp, out, burnin=case["burnin"], cluster_file=cf, concentration_value=case["alpha"], concentration_update=case["conc_update"], density=case["density"], grid_size=11, max_time=max_time, num_iters=case["iters"], num_particles=case["N"], outlier_prob=case["outlier_prob"], precision=case["precision"], print_freq=100, proposal=case["proposal"], resample_threshold=case["thr"], seed=case["seed"], thin=case["thin"], num_chains=1, subtree_update_prob=case["subtree_prob"])
                with gzip.GzipFile(out, "rb") as fh:
                    trace = pickle.load(fh)[0]["trace"]
    except Violation:
        raise
    except Exception as e:
        raise crash_violation("run", e, tags)
    from phyclone.tree import Tree

    if len(trace) < 1:
        raise Violation("trace/empty", "run recorded no entry", tags)
    for j, e in enumerate(trace):
        if not (isinstance(e, dict) and all(k in e for k in ("iter", "alpha", "log_p_one", "tree")) and isinstance(e["tree"], dict)):
            raise Violation("entry/malformed", "trace entry %d of %d is not a recorded state: %r" % (j, len(trace), e if not isinstance(e, dict) else sorted(e)), tags)
        try:
            t = Tree.from_dict(e["tree"])
            mt = from_tree(t)
            em.structural_invariants(t, em.Model.from_mtree(mt), where="trace entry %d" % j)
        except Violation as v:
            raise Violation("entry/" + v.component, v.message, tags)
        except Exception as ex:
            raise crash_violation("entry/restore", ex, tags)
        pts = sorted(dp.idx for dp in t.data)
        if pts != list(range(n_expected)):
            raise Violation("entry/incomplete", "entry %d holds data points %r, expected each of 0..%d once" % (j, pts, n_expected - 1), tags)
        lp = e["log_p_one"]
        if not (isinstance(lp, (float, np.floating)) and math.isfinite(float(lp))):
            raise Violation("entry/non-finite", "entry %d records log_p_one=%r (alpha=%r, tree %r)" % (j, lp, e["alpha"], mt), dict(tags, value=str(lp)))
        if not (math.isfinite(float(e["alpha"])) and float(e["alpha"]) > 0):
            raise Violation("entry/alpha", "entry %d records alpha=%r" % (j, e["alpha"]), tags)
    bounds = []
    if case["N"] == 1:
        bounds.append("N=1")
    if case["thr"] in (0.0, 1.0):
        bounds.append("thr=%g" % case["thr"])
    if case["outlier_prob"] in (1.0,):
        bounds.append("outlier_prob=1")
    if 0 < case["outlier_prob"] < 1:
        bounds.append("outliers-on")
    if case["subtree_prob"] in (0.0, 1.0):
        bounds.append("subtree_prob=%g" % case["subtree_prob"])
    if max_time == 0:
        bounds.append("max_time=0")
    if case["n"] == 1:
        bounds.append("n=1")
    classes = ["kind:" + case["kind"], "prop:" + case["proposal"]] + bounds
    if case.get("G", 11) >= 1000 and case["kind"] == "chain":
        classes.append("grid>=1000(fft path)")
    if case["kind"] == "chain" and case.get("rare_gamma_zero_at") is not None and getattr(rng, "injected", 0):
        classes.append("rare-draw-injected:gamma=0")
    if case.get("partly_deleted"):
        classes.append("input-with-mutation-deleted-in-one-sample")
    return Outcome(nontrivial=case["n"] >= 2 and len(bounds) > 0, classes=tuple(classes), info={k: v for k, v in case.items() if k not in ("rows", "values")}, weight=len(trace))
