"""C17 — input loading is order-independent and filters exactly as documented.

Generated tables (string or integer mutation ids, string/int sample ids; per (mutation, sample) cell: present /
missing / duplicated / zero major copy number / usable row plus a zero-copy-number duplicate; optional columns present
or absent; TSV or CSV; drawn row order; optional cluster file) are loaded through load_data and compared with a
pure-Python model of the rule (keep iff every sample has exactly one row with major_cn > 0), sorted-identifier
numbering, sorted (string) sample order, the C05 oracle for the values, and with the same table in canonical order.
"""
import numpy as np
from hypothesis import strategies as st

from vp import pyclone_oracle as po
from vp.common import SCRATCH, Outcome, Violation, crash_violation

PROPERTY = "C17"
LEVEL = "exploration"
RULE = (
    "Hypothesis draws a table cell by cell (status per mutation x sample), id styles, optional columns, separator, row "
    "permutation, optional clustering and optionally one major<minor row on a kept mutation. The two exclusions of the "
    "property (a sample with no usable row; extra rows offsetting missing rows) are removed by construction and counted. "
    "Non-trivial: >= 1 mutation dropped, >= 1 kept and rows not in canonical order. Distinct: hash of the table+options."
)
ASSUMPTIONS = [
    "mutation ids are all strings or all integers; cluster files list exactly the mutations of the input table",
    "major<minor is only placed on kept rows (nothing is claimed for dropped rows)",
]
STATUSES = ["present", "present", "present", "missing", "dup", "zero", "present+zero"]


@st.composite
def _case(draw):
    n_s = draw(st.integers(1, 3))
    n_m = draw(st.integers(1, 7))
    id_style = draw(st.sampled_from(["str", "int", "str", "comma"]))
    sample_style = draw(st.sampled_from(["str", "int"]))
    sep = draw(st.sampled_from(["\t", ","]))
    if id_style == "comma":
        sep = "\t"
    mut_ids = []
    base = draw(st.lists(st.integers(1, 120), min_size=n_m, max_size=n_m, unique=True))
    for k in base:
        mut_ids.append(k if id_style == "int" else ("m%d" % k if id_style == "str" else "chr%d:10,A>T" % k))
    samp_ids = draw(st.lists(st.integers(1, 30), min_size=n_s, max_size=n_s, unique=True))
    samp_ids = [(s if sample_style == "int" else "S%d" % s) for s in samp_ids]
    with_t = draw(st.booleans())
    with_e = draw(st.booleans())
    cells = {}
    for mi in range(n_m):
        for si in range(n_s):
            cells[(mi, si)] = draw(st.sampled_from(STATUSES))
    excluded = 0
    # exclusion (b): usable-row count equals the number of samples but not one per sample -> make it a plain duplicate
    def usable(stt):
        return {"present": 1, "missing": 0, "dup": 2, "zero": 0, "present+zero": 1}[stt]
    for mi in range(n_m):
        cnt = [usable(cells[(mi, si)]) for si in range(n_s)]
        if sum(cnt) == n_s and any(c != 1 for c in cnt):
            for si in range(n_s):
                if cells[(mi, si)] == "dup":
                    cells[(mi, si)] = "present"
            excluded += 1
    # exclusion (a): every sample keeps at least one usable row
    for si in range(n_s):
        if all(usable(cells[(mi, si)]) == 0 for mi in range(n_m)):
            cells[(0, si)] = "present"
            excluded += 1
            cnt = [usable(cells[(0, sj)]) for sj in range(n_s)]
            if sum(cnt) == n_s and any(c != 1 for c in cnt):
                for sj in range(n_s):
                    cells[(0, sj)] = "present"
    rows = []

    def mk(mi, si, zero=False):
        major = 0 if zero else draw(st.integers(1, 4))
        minor = 0 if zero else draw(st.integers(0, major))
        d = draw(st.integers(0, 80))
        alt = draw(st.integers(0, d))
        r = dict(mutation_id=mut_ids[mi], sample_id=samp_ids[si], ref_counts=d - alt, alt_counts=alt, major_cn=major, minor_cn=minor, normal_cn=draw(st.sampled_from([2, 1])))
        if with_t:
            r["tumour_content"] = draw(st.sampled_from([1.0, 0.6, 0.25]))
        if with_e:
            r["error_rate"] = draw(st.sampled_from([0.001, 0.01, 0.1]))
        return r

    for (mi, si), stt in cells.items():
        if stt == "present":
            rows.append(mk(mi, si))
        elif stt == "dup":
            rows.append(mk(mi, si))
            rows.append(mk(mi, si))
        elif stt == "zero":
            rows.append(mk(mi, si, zero=True))
        elif stt == "present+zero":
            rows.append(mk(mi, si))
            rows.append(mk(mi, si, zero=True))
    if draw(st.sampled_from([False, True, False])):
        # free-form annotation columns the loader does not use; blank cells in them must not matter
        for r in rows:
            r["gene"] = draw(st.sampled_from(["TP53", "", "KRAS", ""]))
            r["effect"] = draw(st.sampled_from(["", "missense", "stop"]))
    rows = list(draw(st.permutations(rows)))
    bad_cn = draw(st.sampled_from([False, False, False, False, True]))
    cluster_ids = draw(st.lists(st.sampled_from([2, 10, 0, 11, 1, 3, 100, 9]), min_size=n_m, max_size=n_m)) if draw(st.integers(0, 2)) == 0 else None
    return dict(rows=rows, sep=sep, bad_cn=bad_cn, bad_pick=draw(st.integers(0, 1000)), cluster_ids=cluster_ids, mut_ids=mut_ids, excluded=excluded)


def strategy(ctx):
    return _case()


def budget(ctx):
    return dict(max_examples=ctx.pick(1200, 48000), shards=16)


def warmup():
    evaluate(dict(rows=[dict(mutation_id="a", sample_id="s", ref_counts=3, alt_counts=1, major_cn=1, minor_cn=1, normal_cn=2)], sep="\t", bad_cn=False, bad_pick=0, cluster_ids=None, mut_ids=["a"], excluded=0))


def _canon(rows):
    return sorted(rows, key=lambda r: (str(r["mutation_id"]), str(r["sample_id"]), -r["major_cn"], r["ref_counts"], r["alt_counts"]))


def _snapshot(data, samples):
    return [(dp.idx, str(dp.name), np.asarray(dp.value)) for dp in data], [str(s) for s in samples]


def evaluate(case):
    from phyclone.utils.exceptions import MajorCopyNumberError

    rows = [dict(r) for r in case["rows"]]
    kept, samples = po.kept_mutations(rows)
    tags = dict(sep="tab" if case["sep"] == "\t" else "comma", clustered=case["cluster_ids"] is not None)
    all_muts = sorted({r["mutation_id"] for r in rows})
    dropped = [m for m in all_muts if m not in kept]
    classes = set(["sep:" + tags["sep"], "ids:" + type(rows[0]["mutation_id"]).__name__])
    if not kept:
        # nothing survives: the property states nothing about the resulting (empty) load; only exercise it
        try:
            po.load(rows, SCRATCH, sep=case["sep"])
        except Exception:
            pass
        return Outcome(nontrivial=False, classes=("all-dropped",), info=dict(rows=rows[:4]))
    clusters = None
    member = None
    if case["cluster_ids"] is not None:
        cid = dict(zip(case["mut_ids"], case["cluster_ids"]))
        # the cluster file lists every mutation of the input table (README: must match), including those the loader
        # drops; clusters whose mutations are all dropped must simply not appear (numbering stays 0..n-1)
        present = [m for m in case["mut_ids"] if any(r["mutation_id"] == m for r in rows)]
        clusters = {m: cid[m] for m in present}
        member = {m: cid[m] for m in kept}
        classes.add("clustered")
        if set(cid[m] for m in present) - set(member.values()):
            classes.add("cluster-with-all-mutations-dropped")
    # --- major < minor on a kept row must be rejected
    if case["bad_cn"]:
        cand = [i for i, r in enumerate(rows) if r["mutation_id"] in kept and r["major_cn"] > 0]
        i = cand[case["bad_pick"] % len(cand)]
        rows[i]["minor_cn"] = rows[i]["major_cn"] + 1
        try:
            po.load(rows, SCRATCH, sep=case["sep"], clusters=clusters)
        except MajorCopyNumberError:
            return Outcome(nontrivial=True, classes=("major<minor-rejected",), info=dict(row=rows[i]))
        except Exception as e:
            raise crash_violation("bad-cn", e, tags)
        raise Violation("bad-cn/accepted", "a kept row with major_cn %d < minor_cn %d was loaded without an error" % (rows[i]["major_cn"], rows[i]["minor_cn"]), tags)
    try:
        got, gs = _snapshot(*po.load(rows, SCRATCH, sep=case["sep"], clusters=clusters))
        canon_rows = _canon(rows)
        ref, rs = _snapshot(*po.load(canon_rows, SCRATCH, sep=case["sep"], clusters=clusters))
        other_sep = "," if case["sep"] == "\t" and not any("," in str(r["mutation_id"]) for r in rows) else "\t"
        alt, as_ = _snapshot(*po.load(rows, SCRATCH, sep=other_sep, clusters=clusters))
    except Exception as e:
        raise crash_violation("load", e, tags)
    if gs != samples:
        raise Violation("samples", "samples %r, expected sorted %r" % (gs, samples), tags)
    # expected data points
    byk = {}
    for r in rows:
        if r["major_cn"] > 0:
            byk[(r["mutation_id"], str(r["sample_id"]))] = r
    grids = {}
    for m in kept:
        g = []
        for s in samples:
            r = byk[(m, s)]
            g.append(po.emission_grid(r["ref_counts"], r["alt_counts"], r["major_cn"], r["minor_cn"], r["normal_cn"], r.get("tumour_content", 1.0), r.get("error_rate", 0.001), "binomial", 400.0, 5))
        grids[m] = np.stack(g)
    if clusters is None:
        exp = [(str(m), grids[m]) for m in kept]
    else:
        exp = [(str(c), sum(grids[m] for m in kept if member[m] == c)) for c in sorted(set(member.values()))]
    names = [nm for _, nm, _ in got]
    if names != [e[0] for e in exp] or [i for i, _, _ in got] != list(range(len(exp))):
        what = "filter" if set(names) != set(e[0] for e in exp) else "order"
        raise Violation("%s" % what, "loaded data points %r (idx %r); expected kept %s in sorted order %r (dropped: %r)" % (names, [i for i, _, _ in got], "clusters" if clusters else "mutations", [e[0] for e in exp], dropped), dict(tags, what=what))
    for (i, nm, v), (en, g) in zip(got, exp):
        if v.shape != g.shape or not np.all(np.abs(v - g) <= 1e-8 * np.maximum(1, np.abs(g)) * 8):
            raise Violation("values", "data point %s: loaded grid differs from the model (max %.3e); sample order or defaults wrong?" % (nm, float(np.max(np.abs(v - g))) if v.shape == g.shape else -1), tags)
    for label, other in (("row-order", ref), ("separator", alt)):
        if [x[:2] for x in other] != [x[:2] for x in got] or any(np.max(np.abs(a[2] - b[2])) > 1e-12 for a, b in zip(other, got)):
            raise Violation("independence/" + label, "loading the same table with a different %s gives different data (%r vs %r)" % (label, [x[1] for x in other], names), tags)
    if dropped:
        classes.add("dropped")
    sts = {}
    for r in rows:
        sts.setdefault((r["mutation_id"], str(r["sample_id"])), []).append(r["major_cn"] > 0)
    if any(len(v) == 2 and sum(v) == 1 for v in sts.values()):
        classes.add("usable+zero-cn-duplicate")
    if any(sum(v) == 2 for v in sts.values()):
        classes.add("duplicate")
    if "tumour_content" not in rows[0]:
        classes.add("default-tumour-content")
    if "error_rate" not in rows[0]:
        classes.add("default-error-rate")
    if "gene" in rows[0]:
        classes.add("annotation-columns-with-blanks")
    if case["excluded"]:
        classes.add("excluded-by-construction")
    permuted = rows != canon_rows
    return Outcome(
        nontrivial=bool(dropped) and bool(kept) and permuted,
        classes=tuple(sorted(classes)),
        info=dict(n_rows=len(rows), kept=[str(k) for k in kept], dropped=[str(d) for d in dropped], samples=samples, sep=tags["sep"]),
        weight=len(rows),
    )
