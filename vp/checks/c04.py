"""C04 — data-point, prune-regraft and subtree moves preserve the same posterior as C01.

Same exact machinery as C01 (all clone trees x every random outcome -> transition matrix,
oracle pi K = pi with pi ∝ exp(log_p_one)).  Components are checked and reported separately:

  dp/no-outliers, dp/outliers   DataPointSampler
  prg                           PruneRegraphSampler
  subtree-inner/<proposal>      selection fixed: for every context tree C, attachment point p and
                                forest F over the remaining data, F -> sample_swarm -> _correct_weights
                                -> _sample_tree_from_swarm leaves pi restricted to {C ∪_p F} invariant
  subtree-full/<proposal>       sample_tree including its random subtree choice
  sweep                         one iteration of run._run_main_sampler enumerated directly equals
                                ((1-s) K_pg + s K_sub) K_dp K_prg built from the component matrices
  sweep/stub-moves              run._run_main_sampler driven with four stand-in updates that are pi-invariant by
                                construction (Metropolis swaps over random pairings of ALL states) on 4-5 data points:
                                one sweep must leave pi invariant however the loop picks, orders or repeats its updates
"""
import contextlib
import io
import itertools

import numpy as np
from hypothesis import strategies as st

from vp import exact, gen
from vp.common import HarnessError, Outcome, Violation, crash_violation
from vp.enumrng import LeafBudgetExceeded, explore
from vp.model import MTree, all_mtrees, to_tree_grid, tree_key

PROPERTY = "C04"
LEVEL = "exploration"
SHRINK = False
STRATIFIED = True
RULE = (
    "Hypothesis draws (n, dims, grid, value regime, alpha, outlier prior, N, threshold); the move kind "
    "(dp with/without outliers, prune-regraft, subtree inner/full x 3 proposals, sweep composition, sweep with stand-in moves on 243-2992 states) is stratified over "
    "shards. Per case all clone trees over the data are enumerated and the move's transition matrix is computed exactly "
    "over every random outcome. Non-trivial: some start tree has >= 2 reachable targets. Distinct: hash of the case."
)
ASSUMPTIONS = [
    "moves draw only through the injected generator's random/integers/choice/multinomial/shuffle",
    "n <= 4 (dp, prg) / n <= 3 (subtree; 4 in thorough for the full move without outliers)",
    "pi from the code's own log_p_one (checked against the model in C03)",
]
KINDS = [
    ("dp", None, False),
    ("dp", None, True),
    ("prg", None, False),
    ("prg", None, True),
    ("subtree-inner", "fully", None),
    ("subtree-inner", "semi", None),
    ("subtree-inner", "bootstrap", None),
    ("subtree-full", "fully", None),
    ("subtree-full", "semi", None),
    ("subtree-full", "bootstrap", None),
    ("sweep", None, False),
    ("sweep", None, True),
    ("subtree-support", None, True),
    ("subtree-decomp", None, None),
    ("sweep-stub", None, False),
    ("sweep-stub", None, True),
]
TOL = 1e-9


@st.composite
def _case(draw, tier, shard):
    kind, proposal, out = KINDS[shard % len(KINDS)]
    if out is None:
        out = draw(st.booleans())
    if proposal is None:
        proposal = draw(st.sampled_from(["fully", "semi", "bootstrap"]))
    quick = tier == "quick"
    if kind == "dp":
        n = draw(st.sampled_from([3, 2, 3] if quick or out else [3, 4, 2, 3]))
    elif kind == "prg":
        n = draw(st.sampled_from([3, 4, 2] if not out else ([3, 2] if quick else [3, 4, 2])))
    elif kind == "sweep":
        n = 2
    elif kind == "sweep-stub":
        n = 4 if quick or out else draw(st.sampled_from([4, 5]))
    elif kind in ("subtree-support", "subtree-decomp"):
        n = 3
    elif kind == "subtree-inner":
        n = draw(st.sampled_from([3, 2] if not out else ([2] if quick else [2, 3])))
    else:
        n = draw(st.sampled_from([2] if quick else [2, 3, 2]))
    return dict(
        kind=kind,
        n=n,
        dims=draw(st.sampled_from([1, 1, 2])),
        G=draw(st.integers(3, 6)),
        values=draw(gen.st_values_spec(regimes=("moderate", "ties", "flat", "spiky"))),
        alpha=draw(st.sampled_from([1.0, 0.3, 2.5, 0.1, 5.0])),
        proposal=proposal,
        N=2,
        thr=draw(st.sampled_from([1.0, 0.5, 0.9, 0.0])),
        outlier_prior=draw(st.sampled_from([0.05, 0.3, 0.01])) if out else 0.0,
        wiring="run" if kind == "sweep" else draw(st.sampled_from(["library", "run"])),
        s=draw(st.sampled_from([0.5, 0.25, 0.75])) if kind == "sweep-stub" else draw(st.sampled_from([0.5, 0.0, 1.0, 0.25])),
        prev_alpha=draw(st.sampled_from([None, 4.0, None, 0.25])),
        warm_at=draw(st.integers(0, 500)),
        sib=draw(st.lists(st.integers(0, 7), min_size=1, max_size=3)),
        pair_seeds=[draw(st.integers(0, 10 ** 6)) for _ in range(4)],
        ndp=draw(st.sampled_from([1, 0, 2])),
        nprg=draw(st.sampled_from([1, 2, 0])),
    )


def strategy(ctx, shard=0):
    return _case(ctx.tier, shard)


def budget(ctx):
    return dict(max_examples=ctx.pick(24 * 5, 24 * 14), shards=24)


def warmup():
    base = dict(n=2, dims=1, G=3, values=dict(seed=1, regime="moderate", scale=1.0), alpha=1.0, proposal="fully", N=2, thr=0.5, outlier_prior=0.0, wiring="library", s=0.5, sib=[0])
    for k in ("dp", "prg"):
        try:
            evaluate(dict(base, kind=k))
        except Violation:
            pass


def _samplers(world, case):
    from phyclone.mcmc import DataPointSampler, ParticleGibbsSubtreeSampler, ParticleGibbsTreeSampler, PruneRegraphSampler

    out = case.get("outlier_prior", 0.0) > 0
    if world["samplers"] is not None:
        s = world["samplers"]
        return dict(dp=s.dp_sampler, prg=s.prg_sampler, pg=s.tree_sampler, sub=s.subtree_sampler)
    rng, td, k = world["rng"], world["tree_dist"], world["kernel"]
    return dict(
        dp=DataPointSampler(td, rng, outliers=out),
        prg=PruneRegraphSampler(td, rng),
        pg=ParticleGibbsTreeSampler(k, rng, num_particles=case["N"], resample_threshold=case["thr"]),
        sub=ParticleGibbsSubtreeSampler(k, rng, num_particles=case["N"], resample_threshold=case["thr"]),
    )


def _reach(K):
    return bool(((K > 1e-15).sum(axis=1) >= 2).any())


def evaluate(case):
    kind = case["kind"]
    n = case["n"]
    out = case.get("outlier_prior", 0.0) > 0
    tags = dict(kind=kind, n=n, outliers=out, proposal=case["proposal"], wiring=case.get("wiring"), N=case["N"], thr=case["thr"])
    budget_ = case.get("leaf_budget", 400000)
    world = exact.make_world(case)
    samplers = _samplers(world, case)
    classes = ["kind:%s" % kind, "n=%d" % n, "out" if out else "noout"]
    rc = exact.ResampleMonitor()
    try:
        with rc:
            if kind == "subtree-inner":
                comp = "subtree-inner/%s" % case["proposal"]
                leaves, nontriv = _inner(world, samplers["sub"], case, comp, tags, budget_)
                rc.check()
                return Outcome(nontrivial=nontriv, classes=tuple(classes + ["prop:" + case["proposal"]]), info=dict(case=case, leaves=leaves), weight=leaves)
            keys, mts, trees = exact.state_space(world, n, out, sib=case.get("sib"))
            pi, lp = exact.target(world, trees)
            rng = world["rng"]
            if kind in ("dp", "prg", "subtree-full") and case.get("prev_alpha") is not None:
                mv = samplers["sub" if kind == "subtree-full" else kind].sample_tree
                exact.warm_history(world, case, [mv], [trees[(case.get("warm_at", 0) + 7 * j) % len(trees)] for j in range(max(1, len(trees) // 8))], leaf_budget=20000)
                pi, lp = exact.target(world, trees)
                classes.append("alpha-changed-in-place-before")
            if kind in ("dp", "prg"):
                comp = "%s/%s" % (kind, "outliers" if out else "no-outliers")
                K, leaves = exact.transition_matrix(samplers[kind].sample_tree, keys, trees, rng, comp, tags, budget_)
                resid = exact.check_invariance(pi, K, keys, mts, comp, tags, TOL)
            elif kind == "subtree-full":
                comp = "subtree-full/%s" % case["proposal"]
                classes.append("prop:" + case["proposal"])
                K, leaves = exact.transition_matrix(samplers["sub"].sample_tree, keys, trees, rng, comp, tags, budget_)
                rc.check()
                resid = exact.check_invariance(pi, K, keys, mts, comp, tags, TOL)
            elif kind == "subtree-support":
                # n = 3 with outliers: the full move is a recorded known finding (F7) as far as INVARIANCE goes, but it
                # must still return clone trees over exactly the input data.  Only the rows of start trees that hold an
                # outlier next to a clone with a descendant are enumerated (the states where pruning touches outliers).
                comp = "subtree-full/%s" % case["proposal"]
                rows = [i for i, m in enumerate(mts) if m.outliers and any(m.parent[c] != -1 for c in range(m.k))]
                K, leaves = exact.transition_matrix(samplers["sub"].sample_tree, keys, trees, rng, comp, tags, budget_, rows=rows)
                resid = 0.0
                classes.append("rows=%d" % len(rows))
            elif kind == "subtree-decomp":
                comp = "subtree-full/%s/decomposition" % case["proposal"]
                K, leaves = _decomposition(world, samplers["sub"], case, keys, mts, trees, comp, tags, budget_)
                resid = 0.0
            elif kind == "sweep":
                comp = "sweep"
                K, leaves, resid = _sweep(world, samplers, case, keys, mts, trees, tags, budget_)
            elif kind == "sweep-stub":
                comp = "sweep/stub-moves"
                K, leaves, resid = _sweep_stub(world, case, keys, mts, trees, pi, lp, comp, tags, budget_)
            else:
                raise HarnessError("unknown kind %r" % kind)
        rc.check()
    except exact.Inconclusive as e:
        return Outcome(nontrivial=False, classes=("inconclusive:%s" % e,), weight=0)
    except Violation as v:
        if len(rc.tie_decisions) > 1 and v.tags.get("exc_type") is None:
            return Outcome(nontrivial=False, classes=("inconclusive:ess-threshold-tie",), weight=0)
        raise
    return Outcome(nontrivial=_reach(K), classes=tuple(classes), info=dict(case=case, states=len(keys), leaves=leaves, residual=resid), weight=leaves)


# ---------------------------------------------------------------------------


def _inner(world, sampler, case, comp, tags, budget_):
    n = case["n"]
    out = case.get("outlier_prior", 0.0) > 0
    data, grid, td, rng = world["data"], world["grid"], world["tree_dist"], world["rng"]
    leaves = 0
    nontriv = False

    def inner_move(ctx, parent, F):
        tree = ctx.copy()
        sub = F.copy()
        swarm = sampler.sample_swarm(sub)
        swarm = sampler._correct_weights(parent, swarm, tree)
        return sampler._sample_tree_from_swarm(swarm)

    for r in range(0, n):
        for cidx in itertools.combinations(range(n), r):
            fidx = [i for i in range(n) if i not in cidx]
            ctxs = all_mtrees(cidx, False)  # the context never holds outliers (they are moved into the subtree)
            forests = all_mtrees(fidx, out)
            for cm in ctxs.values():
                ctx = to_tree_grid(cm, data, grid)
                for parent in list(ctx.nodes) + [None]:
                    S = {}
                    for fm in forests.values():
                        F = to_tree_grid(fm, data, grid)
                        t = ctx.copy()
                        t.add_subtree(F, parent=parent)
                        for o in F.outliers:
                            t.add_data_point_to_outliers(o)
                        t.update()
                        S[tree_key(t)] = (F, t, fm)
                    keys = list(S)
                    idx = {k: i for i, k in enumerate(keys)}
                    lp = np.array([float(td.log_p_one(S[k][1])) for k in keys])
                    pi = np.exp(lp - lp.max())
                    pi /= pi.sum()
                    K = np.zeros((len(keys), len(keys)))
                    for k in keys:
                        F = S[k][0]
                        try:
                            res = explore(lambda: tree_key(inner_move(ctx, parent, F)), rng, max_leaves=max(1, budget_ - leaves))
                        except LeafBudgetExceeded:
                            raise exact.Inconclusive("leaf budget")
                        except (Violation, HarnessError):
                            raise
                        except Exception as e:
                            raise crash_violation(comp, e, tags)
                        leaves += len(res)
                        for p, o in res:
                            if o not in idx:
                                raise Violation(comp + "/outside-support", "inner subtree update left the restricted state space: %r" % (o,), tags)
                            K[idx[k], idx[o]] += p
                    if np.abs(K.sum(1) - 1).max() > 1e-9:
                        raise HarnessError("inner kernel rows do not sum to one")
                    resid = np.abs(pi @ K - pi).max()
                    if len(keys) >= 2:
                        nontriv = True
                    if resid > TOL:
                        t = dict(tags)
                        t["residual"] = float(resid)
                        raise Violation(comp, "inner subtree kernel not invariant: residual %.3e (context %r, parent %r, %d forests)" % (resid, cm, parent, len(keys)), t)
    return leaves, nontriv


def _decomposition(world, sampler, case, keys, mts, trees, comp, tags, budget_):
    """sample_tree == (uniform choice of a non-outlier data point's clone) o (inner kernel on the selected subtree).
    Independent of the known finding F7 (which concerns the selection probabilities): for a few start trees the exact
    law of sample_tree must equal the mixture, over the possible choices, of the exact law of
    sample_swarm -> _correct_weights -> _sample_tree_from_swarm applied to the subtree the choice selects - the kernel
    that `subtree-inner` proves invariant.  A shortcut taken inside sample_tree for some selections shows up here."""
    rng = world["rng"]
    idx = {k: i for i, k in enumerate(keys)}
    cand = [i for i, m in enumerate(mts) if m.k >= 2 and (len(m.roots()) >= 2 or any(m.parent[c] != -1 for c in range(m.k)))]
    if not cand:
        raise exact.Inconclusive("no start tree with structure")
    off = case.get("warm_at", 0)
    rows = [cand[(off + 5 * j) % len(cand)] for j in range(min(5, len(cand)))]
    K = np.zeros((len(keys), len(keys)))
    leaves = 0
    for i in sorted(set(rows)):
        S = trees[i]
        res = explore(lambda: tree_key(sampler.sample_tree(S.copy())), rng, max_leaves=budget_)
        leaves += len(res)
        got = {}
        for p, o in res:
            got[o] = got.get(o, 0.0) + p
            if o in idx:
                K[i, idx[o]] += p
        nodes = [lab for lab in S.labels.values() if lab != S.outlier_node_name]
        expect = {}
        for c in nodes:
            t = S.copy()
            sroot = t.get_parent(c)
            parent = t.get_parent(sroot)
            sub = t.get_subtree(sroot)
            t.remove_subtree(sub)
            for dp in t.outliers:
                t.remove_data_point_from_outliers(dp)
                sub.add_data_point_to_outliers(dp)

            def inner():
                swarm = sampler.sample_swarm(sub.copy())
                swarm = sampler._correct_weights(parent, swarm, t.copy())
                return tree_key(sampler._sample_tree_from_swarm(swarm))

            r2 = explore(inner, rng, max_leaves=budget_)
            leaves += len(r2)
            for p, o in r2:
                expect[o] = expect.get(o, 0.0) + p / len(nodes)
        worst = max(abs(got.get(k, 0.0) - expect.get(k, 0.0)) for k in set(got) | set(expect))
        if worst > 1e-9:
            raise Violation(comp, "from %r the subtree update's outcome law differs by %.3e from the mixture of inner kernels over its possible subtree choices" % (mts[i], worst), dict(tags, residual=worst))
    return K, leaves


def _sweep(world, samplers, case, keys, mts, trees, tags, budget_):
    import phyclone.run as prun
    from phyclone.tree import Tree
    from phyclone.utils import Timer

    rng, td = world["rng"], world["tree_dist"]
    s = case["s"]
    comp = "sweep"
    Kpg, l1 = exact.transition_matrix(samplers["pg"].sample_tree, keys, trees, rng, comp + "/pg", tags, budget_)
    Ksub, l2 = exact.transition_matrix(samplers["sub"].sample_tree, keys, trees, rng, comp + "/sub", tags, budget_)
    Kdp, l3 = exact.transition_matrix(samplers["dp"].sample_tree, keys, trees, rng, comp + "/dp", tags, budget_)
    Kprg, l4 = exact.transition_matrix(samplers["prg"].sample_tree, keys, trees, rng, comp + "/prg", tags, budget_)
    expected = ((1 - s) * Kpg + s * Ksub) @ Kdp @ Kprg
    holder = world["samplers"]
    data = [world["data"][i] for i in sorted(world["data"])]

    def one_iter(tree):
        with contextlib.redirect_stdout(io.StringIO()):
            res = prun._run_main_sampler(False, data, float("inf"), 1, 1, 1, 10 ** 9, holder, ["s"], 1, Timer(), tree, td, 0, rng, s)
        tr = res["trace"]
        if len(tr) != 2:
            raise Violation("sweep/trace-length", "one iteration produced %d trace entries" % len(tr), tags)
        return Tree.from_dict(tr[-1]["tree"])

    K, l5 = exact.transition_matrix(one_iter, keys, trees, rng, comp, tags, budget_)
    d = float(np.abs(K - expected).max())
    if d > 1e-9:
        i, j = np.unravel_index(np.abs(K - expected).argmax(), K.shape)
        raise Violation("sweep/composition", "run-loop sweep kernel differs from ((1-s)K_pg+sK_sub)K_dp K_prg by %.3e at %r -> %r (s=%s)" % (d, mts[i], mts[j], s), dict(tags, residual=d))
    l6 = 0
    if not (case.get("outlier_prior", 0.0) > 0) and case.get("prev_alpha") is None:
        # second iteration after a concentration update: EVERY move of the sweep (whole-tree, subtree, data-point,
        # prune-regraft) has to work under the updated value.  Checked for the cheap no-outlier state space only.
        a0 = float(td.prior.alpha)
        a1 = 2.5 if a0 != 2.5 else 0.4

        class Stub:
            def sample(self, old, k, nn):
                return a1

        real = holder.conc_sampler
        try:
            td.prior.alpha = a1
            mats = []
            for nm in ("pg", "sub"):
                Kx, lx = exact.transition_matrix(samplers[nm].sample_tree, keys, trees, rng, comp + "/" + nm, tags, budget_)
                mats.append(Kx)
                l6 += lx
            # under the updated value each of the two tree updates must leave THAT posterior invariant (n = 2: the subtree
            # move resamples the whole tree, so it is exact) - a sampler that kept the old value fails here
            pi1, _ = exact.target(world, trees)
            for nm, Kx in zip(("pg", "sub"), mats):
                exact.check_invariance(pi1, Kx, keys, mts, "sweep/after-concentration-update/" + nm, dict(tags, alpha=a1), TOL)
            td.prior.alpha = a0
            # the data-point and prune-regraft moves are switched off in this two-iteration run to keep the
            # enumeration small (they read the distribution object directly and are covered by the one-iteration check)
            expected2 = ((1 - s) * Kpg + s * Ksub) @ ((1 - s) * mats[0] + s * mats[1])
            holder.conc_sampler = Stub()

            def two_iter(tree):
                td.prior.alpha = a0
                with contextlib.redirect_stdout(io.StringIO()):
                    res = prun._run_main_sampler(True, data, float("inf"), 2, 0, 0, 10 ** 9, holder, ["s"], 1, Timer(), tree, td, 0, rng, s)
                return Tree.from_dict(res["trace"][-1]["tree"])

            try:
                K2, lx = exact.transition_matrix(two_iter, keys, trees, rng, comp, tags, 30000)
                l6 += lx
                d2 = float(np.abs(K2 - expected2).max())
                if d2 > 1e-9:
                    i, j = np.unravel_index(np.abs(K2 - expected2).argmax(), K2.shape)
                    raise Violation("sweep/after-concentration-update", "two run-loop sweeps across a concentration update (%.3g -> %.3g, s=%s) differ from the product of the component kernels under the respective values by %.3e at %r -> %r" % (a0, a1, s, d2, mts[i], mts[j]), dict(tags, residual=d2))
            except exact.Inconclusive:
                pass
        finally:
            holder.conc_sampler = real
            td.prior.alpha = a0
    return K, l1 + l2 + l3 + l4 + l5 + l6, d


class _PairMove:
    """A pi-invariant stand-in for a tree update: a Metropolis swap between a state and its fixed partner."""

    def __init__(self, keys, trees, lp, rng, seed):
        import random

        order = list(range(len(keys)))
        random.Random(seed).shuffle(order)
        self.partner = list(range(len(keys)))
        for a, b in zip(order[::2], order[1::2]):
            self.partner[a], self.partner[b] = b, a
        self.idx = {k: i for i, k in enumerate(keys)}
        self.trees, self.lp, self.rng = trees, lp, rng

    def sample_tree(self, tree):
        from vp.model import tree_key

        i = self.idx[tree_key(tree)]
        j = self.partner[i]
        if j == i:
            return tree
        if self.rng.random() < float(np.exp(min(0.0, self.lp[j] - self.lp[i]))):
            return self.trees[j].copy()
        return tree


def _sweep_stub(world, case, keys, mts, trees, pi, lp, comp, tags, budget_):
    """The sweep of run._run_main_sampler driven with four stand-in updates that are pi-invariant by construction
    (Metropolis swaps over fixed random pairings of the whole state space).  Whatever way the loop chooses, orders or
    repeats its updates, one sweep must leave pi invariant as long as the choice does not look at the tree: this
    reaches state spaces (4 data points, up to 4 clones) that the real moves are too expensive to enumerate on."""
    import types

    import phyclone.run as prun
    from phyclone.tree import Tree
    from phyclone.utils import Timer

    rng, td = world["rng"], world["tree_dist"]
    mv = [_PairMove(keys, trees, lp, rng, sd) for sd in case["pair_seeds"]]
    holder = types.SimpleNamespace(tree_sampler=mv[0], subtree_sampler=mv[1], dp_sampler=mv[2], prg_sampler=mv[3], conc_sampler=None, burnin_sampler=None)
    data = [world["data"][i] for i in sorted(world["data"])]

    def one_iter(tree):
        with contextlib.redirect_stdout(io.StringIO()):
            res = prun._run_main_sampler(False, data, float("inf"), 1, case.get("ndp", 1), case.get("nprg", 1), 10 ** 9, holder, ["s"], 1, Timer(), tree, td, 0, rng, case["s"])
        return Tree.from_dict(res["trace"][-1]["tree"])

    K, leaves = exact.transition_matrix(one_iter, keys, trees, rng, comp, tags, budget_)
    resid = exact.check_invariance(pi, K, keys, mts, comp, dict(tags, s=case["s"]), TOL)
    return K, leaves, resid


def shrink_candidates(case):
    c = dict(case)
    if c["n"] > 1 and c["kind"] not in ("sweep", "sweep-stub"):
        yield dict(c, n=c["n"] - 1)
    if c["dims"] > 1:
        yield dict(c, dims=1)
    if c["G"] > 3:
        yield dict(c, G=3)
    if c["thr"] != 0.5:
        yield dict(c, thr=0.5)
    if c["alpha"] != 1.0:
        yield dict(c, alpha=1.0)
    if c["values"]["regime"] != "ties":
        yield dict(c, values=dict(c["values"], regime="ties"))
    if c.get("prev_alpha") is not None:
        yield dict(c, prev_alpha=None)
    if c.get("wiring") == "run" and c["kind"] != "sweep":
        yield dict(c, wiring="library")
    if c.get("outlier_prior", 0) not in (0.0, 0.3):
        yield dict(c, outlier_prior=0.3)
