"""C10 — reported CCFs are feasible on the tree and jointly maximise the likelihood.

Generator: trees of any shape including empty clones (as consensus trees have), dims 1-3, grids 2-7 (brute force over
all assignments) and 8-101 (independent max-plus DP, validated against the brute force on the small cases of the same
run), values with many exact ties (small integers) or continuous.
Oracle on get_map_node_ccfs_and_clonal_prev_dicts(tree): ccf*(G-1) integral in [0, G-1]; per sample idx[v] >= sum of
children's idx and top-level sum <= G-1; sum_v log_p_v[idx_v] equals the maximum (1e-9; value compared, ties allowed);
clonal_prev = ccf - sum children ccf >= -1e-12.
"""
import numpy as np
from hypothesis import strategies as st

from vp import gen
from vp.common import HarnessError, Outcome, Violation, crash_violation
from vp.model import MTree, brute_map, dp_map, node_log_p, to_tree_grid

PROPERTY = "C10"
LEVEL = "exploration"
RULE = (
    "Hypothesis draws a forest by construction (1-6 clones, optional empty clones with >= 2 children, 1-4 roots), dims "
    "1-3, grid 2-7 (brute-force oracle) or 8-101 (DP oracle), tie-heavy integer or continuous values. Non-trivial: a clone "
    "with >= 2 children or depth >= 2, and the unconstrained per-clone optimum is infeasible (the constraint binds). "
    "Distinct: (tree key incl. empty clones, grid, dims, data)."
)
ASSUMPTIONS = ["trees with >= 1 clone (all-outlier trees are C12's subject)"]


@st.composite
def _case(draw):
    big = draw(st.sampled_from([False, False, True]))
    G = draw(st.sampled_from([33, 8, 101, 20])) if big else draw(st.integers(2, 7))
    n = draw(st.integers(1, 6))
    n_roots = draw(st.sampled_from([None, 1, 2, 3, 4]))
    if n_roots:
        n = max(n, n_roots)
    mt = draw(gen.st_mtree(indices=list(range(n)), n_roots=n_roots))
    dup = 0
    if draw(st.integers(0, 4)) == 0:
        # two copies of one sub-tree side by side, holding data points with identical values: distinct clones whose
        # likelihood vectors are bit-identical (two mutations with the same read counts are common in real input)
        dup = draw(st.integers(2, 3))
        half = draw(gen.st_mtree(indices=list(range(dup)), min_clones=1))
        k = len(half["blocks"])
        mt = dict(blocks=[list(b) for b in half["blocks"]] + [[i + dup for i in b] for b in half["blocks"]], parent=list(half["parent"]) + [(-1 if q == -1 else q + k) for q in half["parent"]], outliers=[])
    elif draw(st.sampled_from([True, False])):
        mt = draw(gen.st_with_empty_clones(mt))
    return dict(dup=dup, mtree=mt, G=G, dims=draw(st.sampled_from([1, 2, 3])), values=draw(gen.st_values_spec(regimes=("ties", "moderate", "spiky", "flat", "wide"))), sib=draw(st.lists(st.integers(0, 7), min_size=1, max_size=4)))


def strategy(ctx):
    return _case()


def budget(ctx):
    return dict(max_examples=ctx.pick(1600, 64000), shards=16)


def warmup():
    evaluate(dict(mtree=dict(blocks=[[0], [1], [2]], parent=[-1, 0, 0], outliers=[]), G=3, dims=1, values=dict(seed=1, regime="ties", scale=1.0), sib=[0]))


def evaluate(case):
    from phyclone.process_trace.map import get_map_node_ccfs_and_clonal_prev_dicts

    mt = MTree.from_json(case["mtree"])
    if mt.k == 0:
        return Outcome(nontrivial=False, classes=("no-clones-skipped",))
    G, dims = case["G"], case["dims"]
    n = max(mt.all_data()) + 1 if mt.all_data() else 1
    vs = case["values"]
    values = gen.make_values(n, dims, G, vs["seed"], vs["regime"], vs["scale"])
    if case.get("dup"):
        values = {i: values[i % case["dup"]].copy() for i in range(n)}
    data = gen.make_datapoints(values)
    tags = dict(G=G, dims=dims, k=mt.k, regime=vs["regime"], empty=any(len(b) == 0 for b in mt.blocks))
    try:
        tree = to_tree_grid(mt, data, (dims, G), sibling_perm=case.get("sib"))
        before = {nm: (np.array(tree._graph[i].log_p), np.array(tree._graph[i].log_r)) for nm, i in tree._node_indices.items()}
        first = get_map_node_ccfs_and_clonal_prev_dicts(tree)
        # summaries are computed repeatedly on one restored tree (table, archive, report): same answer, tree untouched
        ccf, prev = get_map_node_ccfs_and_clonal_prev_dicts(tree)
    except Exception as e:
        raise crash_violation("crash", e, tags)
    for nm, i in tree._node_indices.items():
        if not (np.array_equal(before[nm][0], tree._graph[i].log_p) and np.array_equal(before[nm][1], tree._graph[i].log_r)):
            raise Violation("side-effect", "computing the CCFs modified the likelihood vectors of node %r of the tree" % (nm,), tags)
    for nm in first[0]:
        if not (np.array_equal(first[0][nm], ccf[nm]) and np.array_equal(first[1][nm], prev[nm])):
            raise Violation("side-effect", "two consecutive CCF computations on the same tree disagree for clone %r" % (nm,), tags)
    # map model clones -> real names through the clade (works for empty clones too)
    clade_of = {}
    for nm in tree.nodes:
        cl = set(dp.idx for dp in tree.get_data(nm))
        for d in tree.get_descendants(nm):
            cl |= set(dp.idx for dp in tree.get_data(d))
        clade_of[nm] = frozenset(cl)
    by_clade = {}
    for nm, cl in clade_of.items():
        by_clade.setdefault(cl, []).append(nm)
    names = {}
    mcl = mt.clade_list()
    for i in range(mt.k):
        c = by_clade.get(mcl[i], [])
        if len(c) != 1:
            raise HarnessError("cannot match model clone %d to a unique node (clade %r)" % (i, sorted(mcl[i])))
        names[i] = c[0]
    if set(ccf.keys()) != set(tree.nodes) or set(prev.keys()) != set(tree.nodes):
        raise Violation("keys", "CCF dict covers %r, clones are %r" % (sorted(map(str, ccf.keys())), sorted(map(str, tree.nodes))), tags)
    lp = node_log_p(mt, values, G)
    binding = False
    for s in range(dims):
        idx = {}
        for i in range(mt.k):
            x = float(ccf[names[i]][s]) * (G - 1)
            if abs(x - round(x)) > 1e-9 or not (-1e-9 <= x <= G - 1 + 1e-9):
                raise Violation("grid", "CCF %r of clone %d in sample %d is not on the %d-point grid" % (ccf[names[i]][s], i, s, G), tags)
            idx[i] = int(round(x))
        for i in range(mt.k):
            if idx[i] < sum(idx[c] for c in mt.children(i)):
                raise Violation("feasibility/children", "sample %d: clone %d has index %d below the sum of its children's %r (tree %r)" % (s, i, idx[i], [idx[c] for c in mt.children(i)], mt), tags)
        if sum(idx[r] for r in mt.roots()) > G - 1:
            raise Violation("feasibility/top-level", "sample %d: top-level clones sum to %d > %d (tree %r)" % (s, sum(idx[r] for r in mt.roots()), G - 1, mt), tags)
        val = sum(lp[i][s][idx[i]] for i in range(mt.k))
        node_lp = [lp[i][s] for i in range(mt.k)]
        best_dp = dp_map(mt, node_lp, G)
        if G ** mt.k <= 20000:
            best = brute_map(mt, node_lp, G)
            if abs(best - best_dp) > 1e-9:
                raise HarnessError("oracle self-check: brute-force maximum %r != DP maximum %r for %r" % (best, best_dp, mt))
        else:
            best = best_dp
        if abs(val - best) > 1e-9 * max(1.0, abs(best)):
            raise Violation(
                "optimality",
                "sample %d: reported assignment %r scores %.12g but the maximum over feasible assignments is %.12g (tree %r, G=%d, regime %s)" % (s, [idx[i] for i in range(mt.k)], val, best, mt, G, vs["regime"]),
                tags,
                dict(sample=s, idx=[idx[i] for i in range(mt.k)], value=float(val), best=float(best)),
            )
        for i in range(mt.k):
            pv = float(prev[names[i]][s])
            expect = (idx[i] - sum(idx[c] for c in mt.children(i))) / (G - 1)
            if pv < -1e-12 or abs(pv - expect) > 1e-9:
                raise Violation("clonal-prevalence", "sample %d clone %d: clonal prevalence %r, expected ccf - children = %r" % (s, i, pv, expect), tags)
        # does the constraint bind?  unconstrained per-clone argmax infeasible
        un = {i: int(np.argmax(node_lp[i])) for i in range(mt.k)}
        if any(un[i] < sum(un[c] for c in mt.children(i)) for i in range(mt.k)) or sum(un[r] for r in mt.roots()) > G - 1:
            binding = True
    # the same values as they are WRITTEN to the results table (map command on a one-entry trace of this tree)
    if case.get("via_table", True) and G <= 40 and sorted(mt.all_data()) == list(range(n)):
        t2 = tree
        if (case.get("sib") or [0])[0] % 2 == 0:
            # a run records its trees after relabel_nodes(): pre-order names, so clone 0 is a top-level clone that
            # usually HAS children (creation-order names make clone 0 a leaf most of the time)
            t2 = tree.copy()
            t2.relabel_nodes()
        _table_path(mt, t2, data, values, (dims, G), tags)
    shape = any(len(mt.children(i)) >= 2 for i in range(-1, mt.k)) or any(mt.depth(i) >= 1 for i in range(mt.k))
    classes = ["grid:%s" % ("dp" if G > 7 else "brute"), "regime:" + vs["regime"], "dims=%d" % dims]
    if tags["empty"]:
        classes.append("empty-clone")
    if binding:
        classes.append("constraint-binds")
    if case.get("dup"):
        classes.append("twin-subtrees-with-identical-vectors")
    if any(len(mt.children(i)) >= 3 for i in range(-1, mt.k)):
        classes.append("children>=3")
    return Outcome(nontrivial=shape and binding, classes=tuple(classes), key=[case["mtree"], G, dims, vs], info=dict(mtree=case["mtree"], G=G, dims=dims, values=vs))


def _table_path(mt, tree, data, values, grid, tags):
    import contextlib
    import io
    import os
    import tempfile
    import types

    from phyclone.process_trace import create_main_run_output, write_map_results
    from vp import tracegen as tg
    from vp.checks.c12 import check_table
    from vp.common import SCRATCH

    n = len(data)
    dl = [data[i] for i in range(n)]
    samples = ["S%d" % d for d in range(grid[0])]
    built = types.SimpleNamespace(
        muts={i: [dl[i].name] for i in range(n)}, samples=samples, all_mutations=sorted(dp.name for dp in dl), cluster_rows=None, values=values, grid=grid, mut_to_idx={dl[i].name: i for i in range(n)}
    )
    os.makedirs(SCRATCH, exist_ok=True)
    with tempfile.TemporaryDirectory(dir=SCRATCH) as td:
        trace = os.path.join(td, "t.pkl.gz")
        res = {0: {"data": dl, "samples": samples, "trace": [{"iter": 0, "time": 0.0, "alpha": 1.0, "log_p_one": -1.0, "tree": tree.to_dict()}], "chain_num": 0}}
        try:
            with contextlib.redirect_stdout(io.StringIO()):
                create_main_run_output(None, trace, res)
                write_map_results(trace, os.path.join(td, "m.tsv"), os.path.join(td, "m.nwk"))
        except Exception as e:
            raise crash_violation("table/crash", e, tags)
        with open(os.path.join(td, "m.nwk")) as f:
            nwk = f.read()
        rows = tg.read_table(os.path.join(td, "m.tsv"))
    try:
        check_table(rows, nwk, built, "table", tags)
    except Violation as v:
        raise Violation("results-" + v.component, v.message + " (grid %d)" % grid[1], tags)
