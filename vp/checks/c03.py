"""C03 — the joint log-density implements the FS-CRP model and depends only on the tree.

Oracle: vp.model.fscrp_joint, written from the property text (CRP term, uniform-topology term in both forms with the
naive Z(r) series, child-count factorials including the virtual root, outlier prior terms, grid marginal from the
independent log-space DP, outliers' stand-alone marginals).  Identity: every representation of the same tree
(build history, labels, sibling order, graft, round-trip) gives the same two densities, compares equal and hashes
equal; compute-both equals the separate calls; trees with different (clades, outliers) compare unequal.
"""
import math

import numpy as np
from hypothesis import strategies as st

from vp import gen
from vp.common import Outcome, Violation, crash_violation
from vp.model import MTree, fscrp_joint, tree_key

PROPERTY = "C03"
LEVEL = "exploration"
RULE = (
    "Hypothesis draws a clone tree by construction (1-6 data points, any forest, outliers), alpha, per-point outlier "
    "priors (0 / positive, cluster sizes > 1), data inside the underflow window, three build representations and a "
    "second tree over the same data. Non-trivial: >= 2 clones or outliers present. Distinct: (tree key, alpha, priors, data)."
)
ASSUMPTIONS = ["data dynamic range inside the underflow window of C02 (moderate/ties/flat/spiky regimes, grid <= 24)"]
TOL = 1e-8


@st.composite
def _case(draw):
    big = draw(st.sampled_from([False] * 11 + [True]))
    n = draw(st.integers(65, 72)) if big else draw(st.sampled_from([3, 2, 4, 5, 1, 6]))
    n_roots = draw(st.sampled_from([None, 1, 2, 3, None]))
    with_out = draw(st.booleans())
    mt = draw(gen.st_mtree(indices=list(range(n)), outliers=with_out, max_outliers=3, n_roots=n_roots))
    mt2 = draw(gen.st_mtree(indices=list(range(n)), outliers=with_out, max_outliers=3))
    return dict(
        mtree=mt,
        other=mt2,
        alpha=draw(st.sampled_from([1.0, 0.3, 2.5, 0.05, 11.0]) | st.floats(0.01, 20.0)),
        prior=draw(st.sampled_from([0.05, 0.0, 0.3, 1e-4, 0.9])),
        prior_mask=draw(st.lists(st.booleans(), min_size=1, max_size=6)),
        sizes=draw(st.lists(st.integers(1, 4), min_size=1, max_size=6)),
        dims=draw(st.sampled_from([1, 2, 3])),
        G=3 if big else draw(st.sampled_from([3, 5, 2, 8, 24, 11])),
        values=draw(gen.st_values_spec(regimes=("moderate", "ties", "flat", "spiky", "dimshift"))),
        reps=[draw(gen.st_repr()) for _ in range(3)],
        alpha0=draw(st.sampled_from([None, 3.0, 0.2, None])),
    )


STRATIFIED = True


def strategy(ctx, shard=0):
    if shard % 3 == 2:
        from vp import editmachine as em

        return em.st_program(max_points=6, max_edits=30, samplers=False, forks=False).map(lambda c: dict(c, kind="edit", outlier_prior=max(c["outlier_prior"], 0.1)))
    return _case()


def budget(ctx):
    return dict(max_examples=ctx.pick(3200, 120000), shards=16)


def warmup():
    evaluate(dict(mtree=dict(blocks=[[0], [1]], parent=[-1, 0], outliers=[]), other=dict(blocks=[[0, 1]], parent=[-1], outliers=[]), alpha=1.0, prior=0.0, prior_mask=[True], sizes=[1], dims=1, G=3, values=dict(seed=1, regime="moderate", scale=1.0), reps=[dict(sib=[0], style="post", relabel=False)]))


def _evaluate_edit(case):
    """identity (==, hash) must follow (clades, outliers) at every state of an edit history, including the
    intermediate states inside a move (a data point removed, not yet re-added)"""
    from vp import editmachine as em
    from vp.model import to_tree_grid

    n_probe = [0]

    def same(m, tree, model, label):
        n_probe[0] += 1
        mt = model.to_mtree()
        fresh = to_tree_grid(mt, m.data, m.grid)
        if not (tree == fresh) or hash(tree) != hash(fresh):
            raise Violation("identity/history", "%s: the tree %r does not compare/hash equal to a freshly built tree with the same clades and outliers" % (label, mt), dict(where=label))
        for nm, f in (("log_p", m.td.log_p), ("log_p_one", m.td.log_p_one)):
            a, b = float(f(tree)), float(f(fresh))
            if not abs(a - b) <= 1e-8 * max(1.0, abs(b)):
                raise Violation("density/history", "%s: %s=%.12g after this construction history, %.12g for the same tree built directly (%r)" % (label, nm, a, b, mt), dict(where=label, form=nm))
        if mt.outliers:
            other = MTree(mt.blocks, mt.parent, mt.outliers[1:])
            if tree == to_tree_grid(other, m.data, m.grid):
                raise Violation("identity/history", "%s: the tree %r compares equal to a tree with one outlier fewer" % (label, mt), dict(where=label))

    def on_step(m, i, name):
        same(m, m.tree, m.model, "after step %d (%s)" % (i, name))

    m = em.Machine(case, on_step=on_step, probe=lambda mach, t, model, label: same(mach, t, model, "inside move_point, " + label)).run()
    classes = ["kind:edit-history"] + (["move-out-of-outliers"] if "move-out-of-outliers" in m.classes else [])
    return Outcome(nontrivial=m.removal_seen, classes=tuple(classes), info=dict(kind="edit", applied=m.applied), weight=n_probe[0])


def evaluate(case):
    from phyclone.tree import FSCRPDistribution, TreeJointDistribution

    if case.get("kind") == "edit":
        return _evaluate_edit(case)
    gen.clear_caches()
    mt = MTree.from_json(case["mtree"])
    n = len(mt.all_data())
    G, dims = case["G"], case["dims"]
    vs = case["values"]
    values = gen.make_values(n, dims, G, vs["seed"], vs["regime"], vs["scale"])
    data = gen.make_datapoints(values, outlier_prior=case["prior"], prior_mask=case["prior_mask"], sizes=case["sizes"])
    terms = gen.outlier_terms(data)
    alpha = float(case["alpha"])
    if case.get("alpha0") is not None:
        # a distribution object that has already scored a tree under another concentration value and is then updated
        # in place (what the run loop does): the density must follow the current value
        td = TreeJointDistribution(FSCRPDistribution(float(case["alpha0"])))
        warm = gen.build_repr(mt, data, (dims, G), case["reps"][0])
        td.log_p(warm)
        td.log_p_one(warm)
        td.compute_both_log_p_and_log_p_one(warm)
        td.prior.alpha = alpha
    else:
        td = TreeJointDistribution(FSCRPDistribution(alpha))
    exp_p = fscrp_joint(mt, values, G, alpha, terms, fixed_root=False)
    exp_1 = fscrp_joint(mt, values, G, alpha, terms, fixed_root=True)
    r = len(mt.roots())
    tags = dict(k=mt.k, roots=min(r, 3), n_outliers=len(mt.outliers), alpha=alpha)
    trees = []
    for rep in case["reps"]:
        try:
            t = gen.build_repr(mt, data, (dims, G), rep)
            lp = float(td.log_p(t))
            l1 = float(td.log_p_one(t))
            both = td.compute_both_log_p_and_log_p_one(t)
        except Exception as e:
            raise crash_violation("crash", e, dict(tags, style=rep.get("style")))
        if tree_key(t) != mt.key():
            raise Violation("representation/key", "tree built as %r has clades/outliers %r, model %r" % (rep, tree_key(t), mt), tags)
        for name, got, exp in (("log_p", lp, exp_p), ("log_p_one", l1, exp_1)):
            if not (abs(got - exp) <= TOL * max(1.0, abs(exp))):
                raise Violation(
                    "density/%s" % name,
                    "%s=%.12g but the FS-CRP model gives %.12g (diff %.3e) for %r, alpha=%s, roots=%d, outliers=%d, built %s"
                    % (name, got, exp, got - exp, mt, alpha, r, len(mt.outliers), rep.get("style")),
                    dict(tags, form=name),
                    dict(got=got, expected=exp),
                )
        if abs(float(both[0]) - lp) > 1e-9 * max(1, abs(lp)) or abs(float(both[1]) - l1) > 1e-9 * max(1, abs(l1)):
            raise Violation("density/compute-both", "compute_both gives %r, separate calls (%r, %r) for %r" % (both, lp, l1, mt), tags)
        trees.append((rep, t, lp, l1))
    for rep, t, lp, l1 in trees[1:]:
        if not (t == trees[0][1]) or hash(t) != hash(trees[0][1]):
            raise Violation("identity/eq-hash", "two representations of %r (%r vs %r) do not compare/hash equal" % (mt, trees[0][0], rep), tags)
    # a second tree over the same data: equal iff same key
    mo = MTree.from_json(case["other"])
    try:
        to = gen.build_repr(mo, data, (dims, G), case["reps"][0])
        eq = bool(to == trees[0][1])
        ho = hash(to)
    except Exception as e:
        raise crash_violation("crash", e, tags)
    same = mo.key() == mt.key()
    if eq != same:
        raise Violation("identity/eq", "trees %r and %r compare %s but their (clades, outliers) are %s" % (mt, mo, "equal" if eq else "unequal", "the same" if same else "different"), tags)
    if same and ho != hash(trees[0][1]):
        raise Violation("identity/eq-hash", "equal trees hash differently", tags)
    classes = ["r=%s" % ("3+" if r >= 3 else r), "alpha!=1" if alpha != 1 else "alpha=1"]
    if n > 64:
        classes.append("more-than-64-data-points")
        # two trees that differ only in where a data point with a large index sits must compare unequal
        hi = max(mt.all_data())
        for i, b in enumerate(mt.blocks):
            if hi in b and len(b) > 1 and mt.k > 1:
                j = (i + 1) % mt.k
                blocks2 = [list(x) for x in mt.blocks]
                blocks2[i].remove(hi)
                blocks2[j].append(hi)
                moved = MTree(blocks2, mt.parent, mt.outliers)
                if moved.key() != mt.key():
                    t2 = gen.build_repr(moved, data, (dims, G), case["reps"][0])
                    if t2 == trees[0][1]:
                        raise Violation("identity/eq", "two trees that differ in the clone of data point %d compare equal" % hi, tags)
                break
    if case.get("alpha0") is not None:
        classes.append("alpha-set-in-place-after-first-evaluation")
    if mt.outliers:
        # same clades, one outlier fewer (a particle one step earlier): must compare unequal
        fewer = MTree(mt.blocks, mt.parent, mt.outliers[1:])
        try:
            tf = gen.build_repr(fewer, data, (dims, G), case["reps"][-1])
            eqf = bool(tf == trees[0][1])
        except Exception as e:
            raise crash_violation("crash", e, tags)
        if eqf:
            raise Violation("identity/eq", "trees with the same clades but outlier sets %r vs %r compare equal" % (mt.outliers, fewer.outliers), tags)
        classes.append("same-clades-different-outliers")
    if mt.outliers:
        pos = any(terms[d][0] != 0 for d in mt.outliers)
        zero = any(terms[d][0] == 0 for d in mt.outliers)
        if pos:
            classes.append("outliers:prior>0")
        if zero:
            classes.append("outliers:prior=0")
    for rep in case["reps"]:
        classes.append("rep:" + rep["style"] + ("+relabel" if rep.get("relabel") else ""))
    if same:
        classes.append("other-tree-same-key")
    return Outcome(
        nontrivial=mt.k >= 2 or len(mt.outliers) > 0,
        classes=tuple(classes),
        key=[mt.jkey(), alpha, case["prior"], case["prior_mask"], case["sizes"], vs, G, dims],
        info=dict(mtree=case["mtree"], alpha=alpha, log_p=exp_p, log_p_one=exp_1),
    )
