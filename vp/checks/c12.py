"""C12 — result tables list every mutation once per sample, consistent with the tree.

Same synthetic traces as C11 plus corner trees (single clone, all outliers, none, chains, stars).  For the table+Newick
pair written by map (both modes), consensus (both weightings) and every member of the topology archive:
each input mutation x sample exactly once; clone_id is a node of the Newick tree or -1; all mutations of a cluster share
a clone (and carry their cluster id); ccf / clonal_prev are -1 for outliers and otherwise lie on the grid in [0,1], are
constant per (clone, sample), feasible and jointly optimal on the decoded tree (C10 oracle) with
clonal_prev = ccf - children's ccf; the commands complete for every tree a run can record.
"""
import csv
import io
import os
import tempfile

import numpy as np
from hypothesis import strategies as st

from vp import gen, tracegen as tg
from vp.common import SCRATCH, Outcome, Violation, crash_violation
from vp.model import MTree, dp_map, node_log_p

PROPERTY = "C12"
LEVEL = "exploration"
RULE = (
    "Hypothesis draws a data set (1-6 points, 1-3 samples, optionally pre-clustered with integer cluster ids), a pool of "
    "clone trees incl. forced corner shapes (all outliers, single clone, chain, star), chains/entries as in C11 and a "
    "consensus threshold. Non-trivial: some tree has >= 2 clones or >= 1 outlier. Distinct: hash of the trace description."
)
ASSUMPTIONS = ["values inside the underflow window; synthetic log_p_one values"]


@st.composite
def _case(draw):
    ds = draw(tg.st_dataset())
    n = ds["n"]
    idx = list(range(n))
    k = draw(st.integers(1, 4))
    pool = []
    for _ in range(k):
        shape = draw(st.sampled_from(["any", "any", "all-outliers", "single", "chain", "star"]))
        if shape == "any":
            pool.append(draw(gen.st_mtree(indices=idx, outliers=True, max_outliers=n)))
        elif shape == "all-outliers":
            pool.append(dict(blocks=[], parent=[], outliers=idx))
        elif shape == "single":
            pool.append(dict(blocks=[idx], parent=[-1], outliers=[]))
        elif shape == "chain":
            pool.append(dict(blocks=[[i] for i in idx], parent=[i - 1 for i in idx], outliers=[]))
        else:
            pool.append(dict(blocks=[[i] for i in idx], parent=[-1] + [0] * (n - 1), outliers=[]))
    ent = draw(tg.st_entries(len(pool), max_chains=3, max_entries=5))
    return dict(ds=ds, pool=pool, ent=ent, thr=draw(st.sampled_from([0.5, 0.75, 0.99, 1.0])))


def strategy(ctx):
    return _case()


def budget(ctx):
    return dict(max_examples=ctx.pick(640, 20000), shards=16)


def warmup():
    from vp.checks import c11

    c11.warmup()


def evaluate(case):
    os.makedirs(SCRATCH, exist_ok=True)
    with tempfile.TemporaryDirectory(dir=SCRATCH) as td:
        return _evaluate(case, td)


def check_table(rows, newick, built, comp, tags):
    """the C12 predicate on one table + Newick pair"""
    try:
        d = tg.decode(rows, newick, built)
    except ValueError as e:
        raise Violation(comp + "/inconsistent", "table/tree pair is inconsistent: %s" % e, tags)
    samples = list(built.samples)
    seen = {}
    for r in rows:
        key = (r["mutation_id"], r["sample_id"])
        seen[key] = seen.get(key, 0) + 1
    want = {(m, s) for m in built.all_mutations for s in samples}
    if set(seen) != want or any(v != 1 for v in seen.values()):
        missing = sorted(want - set(seen))[:3]
        extra = sorted(set(seen) - want)[:3]
        dup = [k for k, v in seen.items() if v != 1][:3]
        raise Violation(comp + "/coverage", "table does not list every input mutation exactly once per sample (missing %r, unexpected %r, repeated %r)" % (missing, extra, dup), tags)
    if built.cluster_rows is not None:
        cl = dict(built.cluster_rows)
        for r in rows:
            if "cluster_id" not in r or int(float(r["cluster_id"])) != cl[r["mutation_id"]]:
                raise Violation(comp + "/cluster-id", "mutation %s carries cluster id %r, input says %r" % (r["mutation_id"], r.get("cluster_id"), cl[r["mutation_id"]]), tags)
    mt = d.mtree
    G = built.grid[1]
    per = {}
    for r in rows:
        c = r["clone_id"]
        ccf, cp = float(r["ccf"]), float(r["clonal_prev"])
        if c == "-1":
            if ccf != -1 or cp != -1:
                raise Violation(comp + "/outlier-values", "outlier mutation %s has ccf %r / clonal_prev %r (expected -1)" % (r["mutation_id"], ccf, cp), tags)
            continue
        k = (c, r["sample_id"])
        if k in per and (abs(per[k][0] - ccf) > 1e-12 or abs(per[k][1] - cp) > 1e-12):
            raise Violation(comp + "/ccf-per-clone", "clone %s sample %s has differing ccf values in the table" % k, tags)
        per[k] = (ccf, cp)
        if not (-1e-12 <= ccf <= 1 + 1e-12) or not (-1e-12 <= cp <= 1 + 1e-12):
            raise Violation(comp + "/ccf-range", "clone %s sample %s: ccf %r clonal_prev %r outside [0,1]" % (c, r["sample_id"], ccf, cp), tags)
    if mt.k > 0:
        lp = node_log_p(mt, built.values, G)
        for si, s in enumerate(samples):
            idx = {}
            known = True
            for i, l in enumerate(d.labels):
                if (l, s) in per:
                    x = per[(l, s)][0] * (G - 1)
                    if abs(x - round(x)) > 1e-6:
                        raise Violation(comp + "/ccf-grid", "clone %s sample %s: ccf %r is not on the %d-point grid" % (l, s, per[(l, s)][0], G), tags)
                    idx[i] = int(round(x))
                else:
                    known = False  # a clone without own mutations (consensus trees) has no row: its ccf is not reported
            if not known:
                continue
            for i in range(mt.k):
                if idx[i] < sum(idx[c] for c in mt.children(i)):
                    raise Violation(comp + "/ccf-feasible", "sample %s: clone %s has ccf index %d below its children's sum" % (s, d.labels[i], idx[i]), tags)
                expect = (idx[i] - sum(idx[c] for c in mt.children(i))) / (G - 1)
                if abs(per[(d.labels[i], s)][1] - expect) > 1e-9:
                    raise Violation(comp + "/clonal-prev", "sample %s clone %s: clonal_prev %r, ccf minus children %r" % (s, d.labels[i], per[(d.labels[i], s)][1], expect), tags)
            if sum(idx[r] for r in mt.roots()) > G - 1:
                raise Violation(comp + "/ccf-feasible", "sample %s: top-level ccfs sum above one" % s, tags)
            val = sum(lp[i][si][idx[i]] for i in range(mt.k))
            best = dp_map(mt, [lp[i][si] for i in range(mt.k)], G)
            if abs(val - best) > 1e-9 * max(1, abs(best)):
                raise Violation(comp + "/ccf-optimal", "sample %s: table ccfs score %.12g, optimum %.12g (tree %r)" % (s, val, best, mt), tags)
    return d


def _cli(comp, args, tags):
    ok, exc = tg.run_cli(args)
    if not ok:
        if exc is not None and not isinstance(exc, SystemExit):
            raise crash_violation(comp, exc, tags)
        raise Violation(comp + "/exit", "command %r exited with an error" % (args[0],), tags)


def _evaluate(case, td):
    trace = os.path.join(td, "trace.pkl.gz")
    built = tg.write_trace(case["ds"], case["pool"], case["ent"], trace, td)
    mts = [MTree.from_json(p) for p in case["pool"]]
    used = sorted({e["tree"] for ch in case["ent"]["chains"] for e in ch["entries"]})
    tags = dict(clustered=case["ds"]["clustered"], all_outliers=any(mts[i].k == 0 for i in used))
    n_tables = 0

    def pair(table, tree):
        with open(tree) as f:
            return tg.read_table(table), f.read()

    for comp, extra in (("map", []), ("map-frequency", ["--map-type", "frequency"])):
        t, nw = os.path.join(td, comp + ".tsv"), os.path.join(td, comp + ".nwk")
        _cli(comp, ["map", "-i", trace, "-o", t, "-t", nw] + extra, tags)
        check_table(*pair(t, nw), built, comp, tags)
        n_tables += 1
    for comp, extra in (("consensus", []), ("consensus-counts", ["-w", "counts"])):
        t, nw = os.path.join(td, comp + ".tsv"), os.path.join(td, comp + ".nwk")
        _cli(comp, ["consensus", "-i", trace, "-o", t, "-t", nw, "--consensus-threshold", str(case["thr"])] + extra, dict(tags, thr=case["thr"]))
        check_table(*pair(t, nw), built, comp, dict(tags, thr=case["thr"]))
        n_tables += 1
    rep, arch = os.path.join(td, "report.tsv"), os.path.join(td, "tops.tar.gz")
    _cli("topology-report", ["topology-report", "-i", trace, "-o", rep, "-t", arch], tags)
    members = tg.archive_members(arch)
    for name in sorted(m for m in members if m.endswith("_results_table.tsv")):
        tid = name.split("/")[0]
        rows = list(csv.DictReader(io.StringIO(members[name].decode()), delimiter="\t"))
        nwk = members["%s/%s.nwk" % (tid, tid)].decode()
        check_table(rows, nwk, built, "archive", tags)
        n_tables += 1
    classes = ["clustered" if case["ds"]["clustered"] else "unclustered", "samples=%d" % case["ds"]["dims"]]
    for i in used:
        mt = mts[i]
        if mt.k == 0:
            classes.append("tree:all-outliers")
        elif mt.k == 1 and not mt.outliers:
            classes.append("tree:single-clone")
        if mt.outliers and mt.k > 0:
            classes.append("tree:clones+outliers")
    nontriv = any(mts[i].k >= 2 or len(mts[i].outliers) >= 1 for i in used)
    return Outcome(nontrivial=nontriv, classes=tuple(sorted(set(classes))), info=dict(n=case["ds"]["n"], clustered=case["ds"]["clustered"], pool=[case["pool"][i] for i in used][:3], tables_checked=n_tables), weight=n_tables)
