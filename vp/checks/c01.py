"""C01 — one whole-tree particle-Gibbs update leaves the clone-tree posterior invariant.

Per generated case (data, alpha, proposal, N, threshold, outlier setting, wiring) the harness
enumerates ALL clone trees over the data and, for every start tree, EVERY outcome of every random
draw inside `sample_tree` (EnumRNG) -> exact transition matrix K.  Oracle: max|pi K - pi| <= 1e-9
with pi ∝ exp(log_p_one), rows sum to 1, and K(T,.) is the same for two representations of T.
"""
import numpy as np
from hypothesis import strategies as st

from vp import exact, gen
from vp.common import Outcome, Violation
from vp.model import MTree, tree_key

PROPERTY = "C01"
LEVEL = "exploration"
SHRINK = False
STRATIFIED = True
RULE = (
    "Hypothesis draws (n<=3 quick / <=4 thorough data points, dims 1-2, grid 3-6, value regime, alpha, N in {2,3}, "
    "resample threshold, outlier prior, representation); the (proposal, wiring, outliers on/off) combination is stratified "
    "over shards so all 12 are always covered. Per case the transition matrix is enumerated exactly over all clone trees "
    "and all random outcomes. Non-trivial: >= 2 trees in the support and at least one resampling step taken on some path. "
    "Distinct: hash of the whole case (data seed, alpha, proposal, N, thr, outlier prior, wiring)."
)
ASSUMPTIONS = [
    "samplers draw only through random/integers/choice/multinomial/shuffle of the injected generator (anything else -> harness error, exit 2)",
    "state spaces up to n=4 data points; leaf budget per case (over budget = inconclusive, counted, never a violation)",
    "pi is taken from the code's own log_p_one (C03 checks that value against the model separately)",
]

COMBOS = [(p, w, o) for p in ("fully", "semi", "bootstrap") for w in ("library", "run") for o in (False, True)]
TOL = 1e-9


@st.composite
def _case(draw, tier, shard):
    proposal, wiring, out = COMBOS[shard % len(COMBOS)]
    n = draw(st.sampled_from([2, 3, 2, 3, 2, 1] if tier == "quick" else [2, 3, 3, 3, 2, 1]))
    if out and n == 3 and proposal != "bootstrap" and tier == "quick":
        n = draw(st.sampled_from([2, 3]))
    N = draw(st.sampled_from([2, 2, 3])) if n <= 2 or (n == 3 and not out and tier != "quick") else 2
    thr = draw(st.sampled_from([1.0, 0.9, 0.5, 0.75, 0.0, 0.95]))
    return dict(
        n=n,
        dims=draw(st.sampled_from([1, 1, 2])),
        G=draw(st.integers(3, 6)),
        values=draw(gen.st_values_spec(regimes=("moderate", "ties", "flat", "spiky"))),
        alpha=draw(st.sampled_from([1.0, 0.3, 2.5, 0.1, 5.0])),
        proposal=proposal,
        N=N,
        thr=thr,
        outlier_prior=draw(st.sampled_from([0.05, 0.3, 0.01])) if out else 0.0,
        wiring=wiring,
        sib=draw(st.lists(st.integers(0, 7), min_size=1, max_size=3)),
        rep=draw(gen.st_repr()),
        rep_row=draw(st.integers(0, 10 ** 6)),
        prev_alpha=draw(st.sampled_from([None, 3.0, None, 0.2])),
        warm_at=draw(st.integers(0, 500)),
    )


def strategy(ctx, shard=0):
    return _case(ctx.tier, shard)


def budget(ctx):
    return dict(max_examples=ctx.pick(24 * 5, 24 * 20), shards=24)


def warmup():
    evaluate(dict(n=2, dims=1, G=3, values=dict(seed=1, regime="moderate", scale=1.0), alpha=1.0, proposal="fully", N=2, thr=0.5, outlier_prior=0.0, wiring="library", sib=[0]))


def make_sampler(world, case):
    from phyclone.mcmc import ParticleGibbsTreeSampler

    if case.get("wiring") == "run":
        return world["samplers"].tree_sampler
    return ParticleGibbsTreeSampler(world["kernel"], world["rng"], num_particles=case["N"], resample_threshold=case["thr"])


def evaluate(case, leaf_budget=None):
    n = case["n"]
    out = case.get("outlier_prior", 0.0) > 0
    component = "pg/%s/%s/%s" % (case.get("wiring", "library"), case["proposal"], "outliers" if out else "no-outliers")
    tags = dict(n=n, N=case["N"], thr=case["thr"], proposal=case["proposal"], wiring=case.get("wiring", "library"), outliers=out)
    if leaf_budget is None:
        leaf_budget = case.get("leaf_budget", 400000)
    world = exact.make_world(case)
    sampler = make_sampler(world, case)
    keys, mts, trees = exact.state_space(world, n, out, sib=case.get("sib"))
    try:
        wsel = [trees[(case.get("warm_at", 0) + 7 * j) % len(trees)] for j in range(max(1, len(trees) // 6))]
        warm = exact.warm_history(world, case, [sampler.sample_tree], wsel, leaf_budget=30000)
        pi, lp = exact.target(world, trees)
        with exact.ResampleMonitor() as rc:
            K, leaves = exact.transition_matrix(sampler.sample_tree, keys, trees, world["rng"], component, tags, leaf_budget)
            resamples = rc.count
            rc.check()
            # metamorphic: same tree, different construction history / labels / sibling order -> same row
            rep = case.get("rep")
            if rep is not None and len(keys) > 0:
                i = case.get("rep_row", 0) % len(keys)
                if not (rep.get("style") == "graft" and any(len(b) == 0 for b in mts[i].blocks)):
                    t2 = gen.build_repr(mts[i], world["data"], world["grid"], rep)
                    K2, l2 = exact.transition_matrix(sampler.sample_tree, keys, [t2 if j == i else trees[j] for j in range(len(keys))], world["rng"], component + "/representation", tags, leaf_budget, rows=[i])
                    leaves += l2
                    d = float(np.abs(K2[i] - K[i]).max())
                    if d > 1e-12:
                        raise Violation(component + "/representation", "transition row of %r depends on how the tree was built (%r): max diff %.3e" % (mts[i], rep, d), tags)
    except exact.Inconclusive as e:
        return Outcome(nontrivial=False, classes=("inconclusive:%s" % e,), weight=0)
    resid = exact.check_invariance(pi, K, keys, mts, component, tags, TOL)
    runloop = False
    if case.get("wiring") == "run" and n <= 2 and case["N"] == 2 and case.get("prev_alpha") is None:
        try:
            with exact.ResampleMonitor():  # same tie-neutralised resampling rule as for K itself
                leaves += _run_loop(world, case, keys, mts, trees, K, component, tags, 40000)
            runloop = True
        except exact.Inconclusive:
            pass
    support = int((pi > 1e-300).sum())
    classes = [
        "combo:%s/%s/%s" % (case["proposal"], case.get("wiring", "library"), "out" if out else "noout"),
        "n=%d" % n,
        "N=%d" % case["N"],
        "thr=%s" % case["thr"],
    ]
    if resamples:
        classes.append("resampled")
    if rc.ties:
        classes.append("ess-threshold-tie-neutralised")
    if case.get("prev_alpha") is not None:
        classes.append("alpha-changed-in-place-before")
    if runloop:
        classes.append("run-loop-with-concentration-update")
    return Outcome(
        nontrivial=support >= 2 and resamples > 0,
        classes=tuple(classes),
        info=dict(case={k: v for k, v in case.items() if k not in ("rep", "rep_row")}, states=len(keys), leaves=leaves, residual=resid),
        weight=leaves,
    )


def _run_loop(world, case, keys, mts, trees, K0, component, tags, leaf_budget):
    """The whole-tree update inside the run command's main loop, across a concentration update: two iterations of
    run._run_main_sampler (data-point and prune-regraft moves switched off, concentration sampler replaced by a stub
    that returns a fixed new value) must equal K_pg(alpha0) @ K_pg(alpha1): after the update the particle Gibbs step
    has to target the posterior under the NEW concentration value, which is also what the trace records."""
    import contextlib
    import io

    import phyclone.run as prun
    from phyclone.tree import Tree
    from phyclone.utils import Timer

    td, rng, holder = world["tree_dist"], world["rng"], world["samplers"]
    a0 = float(case["alpha"])
    a1 = [3.0, 0.3, 1.7][case.get("warm_at", 0) % 3] if a0 != 3.0 else 0.5
    data = [world["data"][i] for i in sorted(world["data"])]
    sampler = holder.tree_sampler

    class Stub:
        def sample(self, old, k, nn):
            return a1

    real = holder.conc_sampler
    comp = component + "/run-loop"
    try:
        td.prior.alpha = a1
        K1, l1 = exact.transition_matrix(sampler.sample_tree, keys, trees, rng, comp, tags, leaf_budget)
        td.prior.alpha = a0
        holder.conc_sampler = Stub()
        recorded = []

        def two_iters(tree):
            td.prior.alpha = a0
            with contextlib.redirect_stdout(io.StringIO()):
                res = prun._run_main_sampler(True, data, float("inf"), 2, 0, 0, 10 ** 9, holder, ["s"], 1, Timer(), tree, td, 0, rng, 0.0)
            tr = res["trace"]
            if len(recorded) < 4:
                recorded.append([float(e["alpha"]) for e in tr])
            return Tree.from_dict(tr[-1]["tree"])

        K2, l2 = exact.transition_matrix(two_iters, keys, trees, rng, comp, tags, leaf_budget)
    finally:
        holder.conc_sampler = real
        td.prior.alpha = a0
    expected = K0 @ K1
    d = float(np.abs(K2 - expected).max())
    if d > 1e-9:
        i, j = np.unravel_index(np.abs(K2 - expected).argmax(), K2.shape)
        raise Violation(comp, "two run-loop iterations across a concentration update (%.3g -> %.3g) differ from K_pg(%.3g) K_pg(%.3g) by %.3e at %r -> %r: the tree update does not use the updated concentration" % (a0, a1, a0, a1, d, mts[i], mts[j]), dict(tags, residual=d))
    for al in recorded:
        if al[0] != a0 or any(x != a1 for x in al[1:]):
            raise Violation(comp + "/recorded-alpha", "trace records concentration values %r, expected %r then %r" % (al, a0, a1), tags)
    return l1 + l2


def shrink_candidates(case):
    c = dict(case)
    if c["n"] > 1:
        yield dict(c, n=c["n"] - 1)
    if c["N"] > 2:
        yield dict(c, N=2)
    if c["dims"] > 1:
        yield dict(c, dims=1)
    if c["G"] > 3:
        yield dict(c, G=3)
    if c["thr"] not in (0.5,):
        yield dict(c, thr=0.5)
    if c["alpha"] != 1.0:
        yield dict(c, alpha=1.0)
    if c["values"]["regime"] != "ties":
        yield dict(c, values=dict(c["values"], regime="ties"))
    if c.get("rep") is not None:
        yield dict(c, rep=None)
    if c.get("prev_alpha") is not None:
        yield dict(c, prev_alpha=None)
    if c.get("outlier_prior", 0) not in (0.0, 0.3):
        yield dict(c, outlier_prior=0.3)


def _rows_task(args):
    """one chunk of start trees of a big case (rows of K are independent -> parallel over processes)"""
    case, rows = args
    out = case.get("outlier_prior", 0.0) > 0
    component = "pg/%s/%s/%s" % (case.get("wiring", "library"), case["proposal"], "outliers" if out else "no-outliers")
    tags = dict(n=case["n"], N=case["N"], thr=case["thr"], proposal=case["proposal"], wiring=case.get("wiring", "library"), outliers=out)
    try:
        world = exact.make_world(case)
        sampler = make_sampler(world, case)
        keys, mts, trees = exact.state_space(world, case["n"], out, sib=case.get("sib"))
        with exact.ResampleMonitor() as rc:
            K, leaves = exact.transition_matrix(sampler.sample_tree, keys, trees, world["rng"], component, tags, 10 ** 7, rows=rows)
        return dict(rows=rows, K=K[rows], leaves=leaves, ties=[], resamples=rc.count)
    except Violation as v:
        from vp.common import jsonable

        return dict(violation=dict(component=v.component, message=v.message, tags=jsonable(v.tags), detail=jsonable(v.detail)))
    except exact.Inconclusive as e:
        return dict(inconclusive=str(e))


def extra(ctx, stats):
    """n = 4 (243 clone trees, ~2e5 leaves per case): rows are distributed over the process pool.
    quick: one case (proposal rotates with the seed); thorough: two per proposal, both wirings."""
    from vp.common import case_hash, derive_seed, jsonable, pool_map

    cases = []
    props = ("fully", "semi", "bootstrap")
    if ctx.tier == "quick":
        p = props[ctx.seed % 3]
        cases.append(dict(n=4, dims=1, G=4, values=dict(seed=derive_seed(ctx.seed, "c01n4q"), regime="moderate", scale=1.5), alpha=0.7, proposal=p, N=2, thr=0.5, outlier_prior=0.0, wiring=["library", "run"][ctx.seed % 2], sib=[0]))
    else:
        for prop in props:
            for j in range(2):
                cases.append(dict(n=4, dims=1, G=4, values=dict(seed=derive_seed(ctx.seed, "c01n4", prop, j), regime="moderate", scale=1.5), alpha=[0.7, 2.0][j], proposal=prop, N=2, thr=[0.5, 1.0][j], outlier_prior=0.0, wiring=["library", "run"][j], sib=[j]))
    for case in cases:
        world = exact.make_world(case)
        keys, mts, trees = exact.state_space(world, case["n"], False, sib=case.get("sib"))
        pi, lp = exact.target(world, trees)
        n_states = len(keys)
        chunks = [list(range(i, n_states, ctx.procs * 2)) for i in range(ctx.procs * 2)]
        res = pool_map(_rows_task, [(case, c) for c in chunks if c], procs=ctx.procs)
        stats.evaluations += 1
        K = np.zeros((n_states, n_states))
        bad = None
        leaves = 0
        ties = set()
        resamples = 0
        for r in res:
            if "violation" in r:
                bad = r["violation"]
                break
            if "inconclusive" in r:
                bad = "inconclusive"
                break
            K[r["rows"]] = r["K"]
            leaves += r["leaves"]
            ties |= set(r["ties"])
            resamples += r["resamples"]
        if bad == "inconclusive" or len(ties) > 1:
            stats.skip("n=4 case inconclusive")
            continue
        if bad is not None:
            stats.violations.append(dict(bad, case=jsonable(case)))
            continue
        out = False
        component = "pg/%s/%s/%s" % (case.get("wiring", "library"), case["proposal"], "no-outliers")
        tags = dict(n=4, N=2, thr=case["thr"], proposal=case["proposal"], wiring=case["wiring"], outliers=out)
        try:
            resid = exact.check_invariance(pi, K, keys, mts, component, tags, TOL)
        except Violation as v:
            stats.violations.append(dict(component=v.component, message=v.message, tags=jsonable(v.tags), detail=jsonable(v.detail), case=jsonable(case)))
            continue
        stats.inner += leaves
        stats.count("n=4")
        stats.count("combo:%s/%s/noout" % (case["proposal"], case["wiring"]))
        stats.nontrivial_keys.add(case_hash(case))  # 243 trees in the support; resampling happens only with thr > 0.5 at N = 2
        stats.notes.append("n=4 %s/%s: %d states, %d leaves, residual %.2e" % (case["proposal"], case["wiring"], n_states, leaves, resid))
