"""C11 — trace summaries pick the true maximum and count topologies exactly.

Synthetic traces (1-4 chains inserted in a drawn key order with chain 0 present, 1-8 entries each, trees from a pool of
1-5 distinct trees over one data set, every occurrence in a fresh representation, log_p_one with or without ties) are
written with create_main_run_output and summarised through the CLI (click CliRunner on phyclone.cli.main).
Oracle: grouping by (clades, outliers) key in the harness.
"""
import math
import os
import tempfile

from hypothesis import strategies as st

from vp import gen, tracegen as tg
from vp.common import SCRATCH, Outcome, Violation, crash_violation, phyclone_frame
from vp.model import MTree

PROPERTY = "C11"
LEVEL = "exploration"
RULE = (
    "Hypothesis draws a data set (1-6 points, optionally pre-clustered), a pool of 1-5 clone trees over it (outliers "
    "allowed), 1-4 chains in a drawn key order with 1-8 entries each (tree index, representation, log_p_one from a small "
    "tie-prone set or continuous) and the number of top trees to archive. Non-trivial: >= 2 distinct trees and some tree "
    "repeated. Distinct: hash of the trace description."
)
ASSUMPTIONS = ["entries carry the recorded log_p_one (synthetic values); chain 0 is present (the commands read data from it)"]


@st.composite
def _case(draw):
    many = draw(st.sampled_from([False, False, False, True]))
    ds = draw(tg.st_dataset(n_min=5 if many else 1))
    k = draw(st.integers(11, 14)) if many else draw(st.sampled_from([2, 3, 1, 4, 5]))
    pool = [draw(gen.st_mtree(indices=list(range(ds["n"])), outliers=True, max_outliers=ds["n"])) for _ in range(k)]
    ent = draw(tg.st_entries(len(pool), max_entries=10 if many else 8))
    if many:
        # every pool tree occurs at least once, so reports with >= 10 rows (two-digit topology ids) are reached
        flat = [e for ch in ent["chains"] for e in ch["entries"]]
        while len(flat) < len(pool):
            e = dict(flat[len(flat) % max(1, len(flat))])
            ent["chains"][len(flat) % len(ent["chains"])]["entries"].append(e)
            flat.append(e)
        for j, e in enumerate(flat[: len(pool)]):
            e["tree"] = j
    return dict(ds=ds, pool=pool, ent=ent, top=draw(st.sampled_from([None, 1, 2, 3, 7, 5, 11])))


def strategy(ctx):
    return _case()


def budget(ctx):
    return dict(max_examples=ctx.pick(960, 24000), shards=16)


def warmup():
    evaluate(dict(ds=dict(n=2, dims=1, G=3, values=dict(seed=1, regime="moderate", scale=1.0), clustered=False, sizes=None, cluster_base=0), pool=[dict(blocks=[[0], [1]], parent=[-1, 0], outliers=[])], ent=dict(chains=[dict(chain_num=0, entries=[dict(tree=0, rep=dict(sib=[0], style="post", relabel=False), lp=-1.0, alpha=1.0)])], order=[0]), top=None))


def _cli(comp, args, tags):
    ok, exc = tg.run_cli(args)
    if not ok:
        if exc is not None and not isinstance(exc, SystemExit):
            raise crash_violation(comp, exc, tags)
        raise Violation(comp + "/exit", "command %r exited with an error" % (args[0],), tags)


def evaluate(case):
    os.makedirs(SCRATCH, exist_ok=True)
    with tempfile.TemporaryDirectory(dir=SCRATCH) as td:
        return _evaluate(case, td)


def _evaluate(case, td):
    trace = os.path.join(td, "trace.pkl.gz")
    built = tg.write_trace(case["ds"], case["pool"], case["ent"], trace, td)
    flat = built.flat
    groups = {}
    for ch, pos, mt, lp in flat:
        groups.setdefault(mt.key(), []).append((ch, pos, lp))
    gmax = max(lp for _, _, _, lp in flat)
    tags = dict(chains=len(case["ent"]["chains"]), groups=len(groups), clustered=case["ds"]["clustered"])

    def decoded(table, tree, comp):
        try:
            with open(tree) as f:
                nwk = f.read()
            return tg.decode(tg.read_table(table), nwk, built)
        except ValueError as e:
            raise Violation(comp + "/undecodable", "output cannot be decoded: %s" % e, tags)

    # ---- MAP, joint likelihood
    t1, n1 = os.path.join(td, "map.tsv"), os.path.join(td, "map.nwk")
    _cli("map", ["map", "-i", trace, "-o", t1, "-t", n1], tags)
    d = decoded(t1, n1, "map")
    k = d.mtree.key()
    if k not in groups or max(lp for _, _, lp in groups[k]) != gmax:
        raise Violation("map/joint", "MAP tree %r has best recorded log_p_one %r but the trace maximum is %r" % (d.mtree, max([lp for _, _, lp in groups.get(k, [])], default=None), gmax), tags)
    # ---- MAP, frequency
    t2, n2 = os.path.join(td, "mapf.tsv"), os.path.join(td, "mapf.nwk")
    _cli("map-frequency", ["map", "-i", trace, "-o", t2, "-t", n2, "--map-type", "frequency"], tags)
    d = decoded(t2, n2, "map-frequency")
    k = d.mtree.key()
    cmax = max(len(v) for v in groups.values())
    if k not in groups or len(groups[k]) != cmax:
        raise Violation("map/frequency", "frequency-mode MAP tree %r occurs %d times, the most frequent topology %d times" % (d.mtree, len(groups.get(k, [])), cmax), tags)
    # ---- topology report (+ archive)
    rep = os.path.join(td, "report.tsv")
    arch = os.path.join(td, "tops.tar.gz")
    args = ["topology-report", "-i", trace, "-o", rep, "-t", arch]
    if case["top"] is not None:
        args += ["--top-trees", str(case["top"])]
    _cli("topology-report", args, tags)
    rows = tg.read_table(rep)
    if len(rows) != len(groups):
        raise Violation("report/rows", "report has %d rows for %d distinct trees" % (len(rows), len(groups)), tags)
    seen = set()
    total = 0
    prev = math.inf
    by_pos = {(ch, pos): (mt, lp) for ch, pos, mt, lp in flat}
    by_iter = {}
    if case["ent"].get("thin") is not None:
        for ch, pos, mt, lp in flat:
            by_iter.setdefault((ch, max(0, pos - 1) * case["ent"]["thin"]), []).append((mt, lp))
    row_key = {}
    for i, r in enumerate(rows):
        if r["topology_id"] != "t_%d" % i:
            raise Violation("report/ids", "row %d has id %r" % (i, r["topology_id"]), tags)
        ptr = (int(r["chain_num"]), int(r["iter"]))
        # the pointer is read as the entry's position in its chain's trace (what the commands use) or, failing that, as a
        # recorded iteration number; either way it has to lead to an entry of the row's tree that attains the row's score
        cands = ([by_pos[ptr]] if ptr in by_pos else []) + by_iter.get(ptr, [])
        if not cands:
            raise Violation("report/pointer", "row %d points to chain %d entry %d which does not exist" % (i, ptr[0], ptr[1]), tags)
        score0 = float(r["log_p_joint_max"])
        good = [c for c in cands if abs(c[1] - score0) <= 1e-9 * max(1, abs(score0)) and c[0].key() not in seen]
        mt, lp = good[0] if good else cands[0]
        key = mt.key()
        if key in seen:
            raise Violation("report/rows", "two rows point to the same tree %r" % (mt,), tags)
        seen.add(key)
        row_key[r["topology_id"]] = key
        cnt = int(r["count"])
        total += cnt
        if cnt != len(groups[key]):
            raise Violation("report/count", "row %d (tree %r): count %d, but %d entries hold that tree" % (i, mt, cnt, len(groups[key])), tags)
        best = max(x[2] for x in groups[key])
        score = float(r["log_p_joint_max"])
        if abs(score - best) > 1e-9 * max(1, abs(best)):
            raise Violation("report/score", "row %d (tree %r): score %r, maximum over its entries %r" % (i, mt, score, best), tags)
        if abs(lp - best) > 1e-9 * max(1, abs(best)):
            raise Violation("report/pointer", "row %d points to an entry with log_p_one %r, the tree's maximum is %r" % (i, lp, best), tags)
        if score > prev + 1e-12:
            raise Violation("report/order", "rows are not ranked by score (%r after %r)" % (score, prev), tags)
        prev = score
    if total != len(flat):
        raise Violation("report/count", "counts sum to %d, trace has %d entries" % (total, len(flat)), tags)
    # archive
    try:
        members = tg.archive_members(arch)
    except Exception as e:
        raise Violation("archive/unreadable", "topologies archive cannot be read: %s" % e, tags)
    dirs = sorted({m.split("/")[0] for m in members})
    top = len(rows) if case["top"] is None else min(case["top"], len(rows))
    want = sorted("t_%d" % i for i in range(top))
    if dirs != want:
        raise Violation("archive/members", "archive holds %r, expected exactly %r (top_trees=%r, %d topologies)" % (dirs, want, case["top"], len(rows)), tags)
    for tid in want:
        tb = members.get("%s/%s_results_table.tsv" % (tid, tid))
        nw = members.get("%s/%s.nwk" % (tid, tid))
        if tb is None or nw is None:
            raise Violation("archive/members", "archive directory %s lacks its table or Newick file (has %r)" % (tid, [m for m in members if m.startswith(tid + "/")]), tags)
        import csv
        import io

        trows = list(csv.DictReader(io.StringIO(tb.decode()), delimiter="\t"))
        try:
            dd = tg.decode(trows, nw.decode(), built)
        except ValueError as e:
            raise Violation("archive/undecodable", "archive entry %s cannot be decoded: %s" % (tid, e), tags)
        if dd.mtree.key() != row_key[tid]:
            raise Violation("archive/content", "archive entry %s holds %r, the report row is %r" % (tid, dd.mtree, row_key[tid]), tags)
    repeated = any(len(v) >= 2 for v in groups.values())
    classes = ["chains=%d" % len(case["ent"]["chains"]), "groups=%d" % min(len(groups), 4), "clustered" if case["ds"]["clustered"] else "unclustered"]
    if case["ent"]["order"] != sorted(case["ent"]["order"]):
        classes.append("chain-key-order-permuted")
    lps = [lp for _, _, _, lp in flat]
    if len(set(lps)) < len(lps):
        classes.append("score-ties")
    if case["top"] is not None and case["top"] < len(rows):
        classes.append("archive-truncated")
    if len(rows) >= 11:
        classes.append("topologies>=11")
    if any(MTree.from_json(p).k == 0 for p in case["pool"]):
        classes.append("all-outlier-tree")
    return Outcome(nontrivial=len(groups) >= 2 and repeated, classes=tuple(classes), info=dict(n=case["ds"]["n"], chains=[c["chain_num"] for c in case["ent"]["chains"]], entries=len(flat), groups=len(groups), top=case["top"]), weight=len(flat))
