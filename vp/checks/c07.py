"""C07 — every tree is a well-formed forest and no move loses or duplicates data.

Generated edit programs in the samplers' grammar (vp.editmachine) are applied to the real Tree and to a tiny
model; after EVERY step the structural invariants are checked (single parent, reachability, inverse index maps,
payload names, consistent data views, no data under dead names, data multiset conserved, structure == model).
Programs also invoke the real samplers (burn-in SMC, PG, subtree PG, data-point, prune-regraft) with a seeded
generator drawn by Hypothesis; each must return a well-formed tree over exactly the data it was given.
"""
from vp import editmachine as em
from vp.common import Outcome

PROPERTY = "C07"
LEVEL = "exploration"
RULE = (
    "Hypothesis draws an edit program (1-6 data points; placement ops in the SMC grammar interleaved with copies and "
    "serialisation round-trips, then up to 30 (quick) / 60 (thorough) edits: data-point moves, prune-regraft, subtree-sampler cycles, "
    "relabel, copy, dict/pickle/TreeHolder round-trips, full update, real sampler invocations). Invariants run after "
    "every applied step. Non-trivial: the program applies a removal (move/prune/subtree cycle) followed by >= 1 further "
    "edit. Distinct: hash of the whole program."
)
ASSUMPTIONS = [
    "preconditions of DESIGN.md section 4 (contiguous names for create_root_node, non-empty clones for graft/serialise, valid node_last_added_to for TreeHolder)",
    "internal layout (_graph, _node_indices, _node_indices_rev, _data) is read for the index-map invariants; if renamed only the public-view invariants run",
]


STRATIFIED = True


def strategy(ctx, shard=0):
    return em.st_program(max_points=6, max_edits=ctx.pick(30, 60), samplers=True, forks=False, sampler_heavy=(shard % 4 == 3), big=(shard % 8 == 6))


def budget(ctx):
    return dict(max_examples=ctx.pick(3200, 120000), shards=16)


def warmup():
    evaluate(dict(n=2, ops=[["new_clone", 0, 0, 0], ["new_clone", 1, 0, 0], ["sampler", 0, 1, 0], ["sampler", 2, 1, 0]], dims=1, G=3, values=dict(seed=1, regime="moderate", scale=1.0), outlier_prior=0.0, alpha=1.0, proposal="semi"))


def evaluate(case):
    steps = [0]

    def on_step(m, i, name):
        steps[0] += 1
        em.structural_invariants(m.tree, m.model, where="after step %d (%s)" % (i, name))
        em.check_ghosts(m, "after step %d (%s)" % (i, name), structural=True, values=False)

    m = em.Machine(case, on_step=on_step).run()
    classes = set(m.classes)
    for a in set(m.applied):
        classes.add("op:" + a)
    return Outcome(
        nontrivial=m.removal_seen and m.edit_after_removal,
        classes=tuple(sorted(classes)),
        info=dict(n=case["n"], applied=m.applied, skipped=m.skipped, final=m.model.to_mtree().to_json()),
        weight=steps[0],
    )
