"""C05 — emission likelihood grids implement the PyClone mutation model.

Generated input tables are written to a temp TSV and read through phyclone.data.pyclone.load_data (the observation
point); every grid is compared with vp.pyclone_oracle.emission_grid (scipy pmfs).  Metamorphic normalisation: a table
with one mutation per alternate count b = 0..d at fixed depth must sum to one at every grid point.  Clusters: the data
point is the sum of its members' grids and its outlier terms are size*log p, size*log1p(-p) (p = 0 -> 0, 0).
"""
import math
import os

import numpy as np
from hypothesis import strategies as st
from scipy.special import logsumexp

from vp import pyclone_oracle as po
from vp.common import SCRATCH, Outcome, Violation, crash_violation

PROPERTY = "C05"
LEVEL = "exploration"
STRATIFIED = True
RULE = (
    "Hypothesis draws input tables (1-3 samples, 1-6 mutations; ref/alt counts from {0, small, 1e3-1e5}; major 1-6, "
    "minor 0..major, normal 1-2; tumour content (0,1]; error rate (1e-6,0.5); density; precision 1e-2..1e5; grid 2-201; "
    "optional pre-clustering; outlier probability 0 or positive) and, on every fourth shard, normalisation tables (all alt "
    "counts 0..d, d<=300). Non-trivial: alt>0 and >= 2 genotypes in some row (table) / d>=2 (normalisation). Distinct: hash of the table+options."
)
ASSUMPTIONS = [
    "tolerance 1e-8 relative on the log-likelihood (1e-6 when depth > 1e4 or precision > 1e4: lgamma cancellation on both sides)",
    "cluster files list exactly the kept mutations (README: must match)",
]


@st.composite
def _row_params(draw):
    major = draw(st.integers(1, 6))
    minor = draw(st.integers(0, major))
    normal = draw(st.sampled_from([2, 1, 2]))
    t = draw(st.sampled_from([1.0, 0.5]) | st.floats(0.01, 1.0))
    eps = draw(st.sampled_from([1e-3, 1e-2, 0.2, 1e-6, 0.4999]) | st.floats(1e-6, 0.4999))
    return major, minor, normal, float(t), float(eps)


@st.composite
def _counts(draw):
    kind = draw(st.sampled_from(["small", "small", "zero", "big", "mid"]))
    if kind == "zero":
        return 0, 0
    if kind == "small":
        d = draw(st.integers(1, 60))
    elif kind == "mid":
        d = draw(st.integers(100, 3000))
    else:
        d = draw(st.integers(10 ** 3, 10 ** 5))
    alt = draw(st.integers(0, d))
    return d - alt, alt


@st.composite
def _table_case(draw):
    n_s = draw(st.integers(1, 3))
    n_m = draw(st.integers(1, 6))
    rows = []
    # numeric sample ids sort differently as numbers (2 < 9 < 10) and as strings ("10" < "2" < "9"): the loader
    # documents sorted (string) sample order
    numeric_samples = draw(st.sampled_from([False, True, False]))
    sid = [10, 2, 9] if numeric_samples else ["s0", "s1", "s2"]
    for m in range(n_m):
        for s in range(n_s):
            major, minor, normal, t, eps = draw(_row_params())
            ref, alt = draw(_counts())
            rows.append(dict(mutation_id="m%d" % m, sample_id=sid[s], ref_counts=ref, alt_counts=alt, major_cn=major, minor_cn=minor, normal_cn=normal, tumour_content=t, error_rate=eps))
    rows = draw(st.permutations(rows))
    clusters = None
    if draw(st.booleans()):
        clusters = {"m%d" % m: draw(st.integers(0, 3)) for m in range(n_m)}
    return dict(
        kind="table",
        rows=list(rows),
        density=draw(st.sampled_from(["beta-binomial", "binomial"])),
        precision=draw(st.sampled_from([400.0, 1.0, 0.01, 1e5, 37.5]) | st.floats(0.01, 1e5)),
        G=draw(st.sampled_from([11, 2, 3, 101, 201, 50])),
        outlier_prob=draw(st.sampled_from([0.0, 0.001, 0.3, 0.0, 1e-9, 1e-12])),
        clusters=clusters,
        cluster_style=draw(st.sampled_from(["minimal", "pyclone-vi"])),
    )


@st.composite
def _norm_case(draw):
    major, minor, normal, t, eps = draw(_row_params())
    return dict(
        kind="norm",
        d=draw(st.integers(0, 300)),
        major=major, minor=minor, normal=normal, t=t, eps=eps,
        density=draw(st.sampled_from(["beta-binomial", "binomial"])),
        precision=draw(st.sampled_from([400.0, 1.0, 0.05, 1e4]) | st.floats(0.05, 1e4)),
        G=draw(st.sampled_from([11, 3, 33])),
    )


@st.composite
def _runopts_case(draw):
    n = draw(st.integers(2, 4))
    dims = draw(st.integers(1, 2))
    rows = []
    for m in range(n):
        for s in range(dims):
            major, minor, normal, t, eps = draw(_row_params())
            ref, alt = draw(_counts())
            rows.append(dict(mutation_id="m%d" % m, sample_id="s%d" % s, ref_counts=ref, alt_counts=alt, major_cn=major, minor_cn=minor, normal_cn=normal, tumour_content=t, error_rate=eps))
    mode = draw(st.sampled_from(["user", "plain", "assign-without-cluster-file", "clustered-plain"]))
    cl = {"m%d" % m: draw(st.integers(0, 2)) for m in range(n)} if mode in ("user", "clustered-plain") else None
    probs = {c: draw(st.sampled_from([0.0, 0.3, 0.001, 0.0, 0.05])) for c in sorted(set(cl.values()))} if mode == "user" else None
    return dict(kind="runopts", rows=rows, mode=mode, clusters=cl, probs=probs, outlier_prob=draw(st.sampled_from([0.0, 0.01, 0.0])),
                lows=draw(st.sampled_from([[1e-4, 0.05], [0.002, 1e-4]])), highs=draw(st.sampled_from([[0.4, 0.9], [0.4, 0.4]])), G=draw(st.sampled_from([5, 11])))


def strategy(ctx, shard=0):
    if shard % 8 == 5:
        return _runopts_case()
    return _norm_case() if shard % 4 == 3 else _table_case()


def budget(ctx):
    return dict(max_examples=ctx.pick(1600, 16000), shards=16)


def warmup():
    evaluate(dict(kind="norm", d=3, major=2, minor=1, normal=2, t=0.8, eps=0.001, density="beta-binomial", precision=400.0, G=3))
    evaluate(dict(kind="norm", d=3, major=2, minor=1, normal=2, t=0.8, eps=0.001, density="binomial", precision=400.0, G=3))


def evaluate(case):
    if case["kind"] == "norm":
        return _norm(case)
    if case["kind"] == "runopts":
        return _runopts(case)
    return _table(case)


def _runopts(case):
    """`phyclone run` option handling in front of the chains.  Grounded in the CLI help: --low-loss-prob / --high-loss-prob
    'do nothing' unless combined with --assign-loss-prob and a cluster file; --user-provided-loss-prob takes the prior from
    the cluster file's outlier_prob column.  Every chain of a run receives the same data and the same outlier setting,
    whatever the number of chains."""
    import tempfile

    from vp.runopts import capture_run

    tags = dict(mode=case["mode"])
    os.makedirs(SCRATCH, exist_ok=True)
    seen = []
    with tempfile.TemporaryDirectory(dir=SCRATCH) as td:
        inp = os.path.join(td, "in.tsv")
        po.write_table(case["rows"], inp)
        cf = None
        if case["clusters"] is not None:
            cf = os.path.join(td, "cl.tsv")
            with open(cf, "w") as f:
                f.write("mutation_id\tcluster_id" + ("\toutlier_prob\n" if case["probs"] is not None else "\n"))
                for m, c in case["clusters"].items():
                    f.write("%s\t%d" % (m, c) + ("\t%r\n" % case["probs"][c] if case["probs"] is not None else "\n"))
        for low, high in zip(case["lows"], case["highs"]):
            for chains in (1, 2):
                kw = dict(in_file=inp, out_file=os.path.join(td, "o.pkl.gz"), cluster_file=cf, burnin=1, num_iters=1, num_particles=2, grid_size=case["G"], seed=7, num_chains=chains, density="binomial",
                          outlier_prob=case["outlier_prob"], low_loss_prob=low, high_loss_prob=high, assign_loss_prob=case["mode"] == "assign-without-cluster-file", user_provided_loss_prob=case["mode"] == "user")
                try:
                    calls = capture_run(**kw)
                except Exception as e:
                    raise crash_violation("run-options", e, tags)
                if sorted(c["chain_num"] for c in calls) != list(range(chains)):
                    raise Violation("run-options/chains", "%d chains requested, chain function called for %r" % (chains, [c["chain_num"] for c in calls]), tags)
                for c in calls:
                    seen.append(((low, high, chains, c["chain_num"]), float(c["outlier_prob"]), [(dp.name, float(dp.outlier_prob), float(dp.outlier_prob_not)) for dp in c["data"]]))
    ref = seen[0]
    for key, op, terms in seen[1:]:
        if op != ref[1] or terms != ref[2]:
            what = "the number of chains / the chain" if key[:2] == ref[0][:2] else "--low-loss-prob/--high-loss-prob (documented to do nothing here)"
            raise Violation("run-options/outlier-setting", "mode %s, --outlier-prob %r: chain %d of %d with low/high %r gets outlier setting %r and prior terms %r; chain 0 of 1 with low/high %r gets %r and %r: they differ with %s" % (case["mode"], case["outlier_prob"], key[3], key[2], key[:2], op, terms, ref[0][:2], ref[1], ref[2], what), tags)
    if case["mode"] == "user":
        sizes = {}
        for m, c in case["clusters"].items():
            sizes[c] = sizes.get(c, 0) + 1
        for name, eo, en in ref[2]:
            p = case["probs"][int(name)]
            if p > 0 and (abs(eo - sizes[int(name)] * math.log(p)) > 1e-9 * max(1, abs(eo)) or abs(en - sizes[int(name)] * math.log1p(-p)) > 1e-9):
                raise Violation("run-options/user-prior", "cluster %s (size %d) with user-provided loss probability %r has prior terms (%r, %r)" % (name, sizes[int(name)], p, eo, en), tags)
    any_prior = any(t[1] != 0 for t in ref[2])
    if any_prior and not ref[1] > 0:
        raise Violation("run-options/kernel-setting", "the data carry outlier priors but the chains are started with outlier probability %r (no outlier placement would be proposed)" % (ref[1],), tags)
    return Outcome(nontrivial=case["mode"] != "plain", classes=("kind:runopts", "mode:" + case["mode"], "outlier_prob=0" if case["outlier_prob"] == 0 else "outlier_prob>0"), info={k: v for k, v in case.items() if k != "rows"})


def _norm(case):
    d = case["d"]
    rows = [dict(mutation_id="b%03d" % b, sample_id="s0", ref_counts=d - b, alt_counts=b, major_cn=case["major"], minor_cn=case["minor"], normal_cn=case["normal"], tumour_content=case["t"], error_rate=case["eps"]) for b in range(d + 1)]
    tags = dict(density=case["density"], kind="norm")
    try:
        data, samples = po.load(rows, SCRATCH, density=case["density"], precision=case["precision"], G=case["G"])
    except Exception as e:
        raise crash_violation("load", e, tags)
    if len(data) != d + 1:
        raise Violation("normalisation/rows", "loaded %d data points from %d mutations" % (len(data), d + 1), tags)
    arr = np.stack([dp.value[0] for dp in data])  # (d+1, G)
    tot = logsumexp(arr, axis=0)
    cond = po.bb_conditioning(d, 0, case["major"], case["minor"], case["normal"], case["t"], case["eps"], case["density"], case["precision"], case["G"])
    lim = 1e-9 * max(1, d) + 4.5e-16 * cond * 4
    worst = float(np.max(np.abs(tot)))
    if not np.all(np.abs(tot) <= lim):
        i = int(np.argmax(np.abs(tot) - lim))
        raise Violation(
            "normalisation/%s" % case["density"],
            "likelihood summed over all alternate counts 0..%d is exp(%.3e) != 1 at grid point %d (cn %d/%d/%d, t=%s, eps=%s, precision=%s)"
            % (d, tot[i], i, case["major"], case["minor"], case["normal"], case["t"], case["eps"], case["precision"]),
            tags,
        )
    return Outcome(nontrivial=d >= 2, classes=("kind:norm", "density:" + case["density"]), info=dict(case=case, max_log_dev=worst), weight=d + 1)


def _table(case):
    rows = case["rows"]
    density, prec, G = case["density"], case["precision"], case["G"]
    tags = dict(density=density, kind="table", clustered=case["clusters"] is not None)
    try:
        data, samples = po.load(rows, SCRATCH, density=density, precision=prec, G=G, outlier_prob=case["outlier_prob"], clusters=case["clusters"], cluster_style=case.get("cluster_style", "minimal"))
    except Exception as e:
        raise crash_violation("load", e, tags)
    muts = sorted({r["mutation_id"] for r in rows})
    exp_samples = sorted({str(r["sample_id"]) for r in rows})
    if [str(x) for x in samples] != exp_samples:
        raise Violation("samples", "samples %r, expected %r" % (list(samples), exp_samples), tags)
    byk = {(r["mutation_id"], str(r["sample_id"])): r for r in rows}
    if any(not isinstance(r["sample_id"], str) for r in rows):
        classes_numeric = True
    else:
        classes_numeric = False
    grids = {}
    classes = set(["kind:table", "density:" + density, "clustered" if case["clusters"] else "unclustered"])
    nontriv = False
    conds = {}
    for m in muts:
        g = []
        cg = []
        for s in exp_samples:
            r = byk[(m, s)]
            g.append(po.emission_grid(r["ref_counts"], r["alt_counts"], r["major_cn"], r["minor_cn"], r["normal_cn"], r["tumour_content"], r["error_rate"], density, prec, G))
            cg.append(po.bb_conditioning(r["ref_counts"], r["alt_counts"], r["major_cn"], r["minor_cn"], r["normal_cn"], r["tumour_content"], r["error_rate"], density, prec, G))
            ng = len(po.genotypes(r["major_cn"], r["minor_cn"], r["normal_cn"], r["error_rate"]))
            if r["alt_counts"] > 0 and ng >= 2:
                nontriv = True
            d = r["ref_counts"] + r["alt_counts"]
            if d == 0:
                classes.add("zero-depth")
            if d > 10 ** 4:
                classes.add("extreme-depth")
            if r["minor_cn"] == r["major_cn"]:
                classes.add("minor=major")
            if r["normal_cn"] == 1:
                classes.add("normal_cn=1")
            if r["tumour_content"] < 1:
                classes.add("t<1")
        grids[m] = np.stack(g)
        conds[m] = np.stack(cg)
    big = any(r["ref_counts"] + r["alt_counts"] > 10 ** 4 for r in rows) or prec > 10 ** 4
    rel = 1e-6 if big else 1e-8
    p = case["outlier_prob"]
    if case["clusters"] is None:
        expected = [(m, grids[m], 1, conds[m]) for m in muts]
        names = list(muts)
    else:
        cl = case["clusters"]
        cids = sorted(set(cl.values()))
        expected = [(str(c), sum(grids[m] for m in muts if cl[m] == c), sum(1 for m in muts if cl[m] == c), sum(conds[m] for m in muts if cl[m] == c)) for c in cids]
        names = [str(c) for c in cids]
    if [dp.name for dp in data] != names or [dp.idx for dp in data] != list(range(len(names))):
        raise Violation("names", "data points are named %r (idx %r), expected %r numbered 0..n-1" % ([dp.name for dp in data], [dp.idx for dp in data], names), tags)
    for dp, (nm, grid, size, cond) in zip(data, expected):
        v = np.asarray(dp.value)
        if v.shape != grid.shape:
            raise Violation("shape", "grid of %s has shape %r, expected %r" % (nm, v.shape, grid.shape), tags)
        err = np.abs(v - grid)
        lim = rel * np.maximum(1.0, np.abs(grid)) * max(1, size) + 4.5e-16 * 4 * cond
        if not np.all(err <= lim):
            s, i = np.argwhere(~(err <= lim))[0]
            what = "cluster-sum" if case["clusters"] is not None and size > 1 else "emission"
            raise Violation(
                "%s/%s" % (what, density),
                "data point %s sample %d grid point %d: loaded %.12g, PyClone model %.12g (rows %r)" % (nm, s, i, v[s, i], grid[s, i], [byk[(m, exp_samples[s])] for m in muts if case["clusters"] is None and m == nm][:1]),
                dict(tags, what=what),
            )
        eo, en = (0.0, 0.0) if p == 0 else (size * math.log(p), size * math.log1p(-p))
        if abs(float(dp.outlier_prob) - eo) > 1e-9 * max(1, abs(eo)) or abs(float(dp.outlier_prob_not) - en) > 1e-9 * max(1, abs(en)):
            raise Violation("outlier-terms", "data point %s (size %d, p=%s): outlier terms (%r, %r), expected (%r, %r)" % (nm, size, p, dp.outlier_prob, dp.outlier_prob_not, eo, en), tags)
        if size > 1:
            classes.add("cluster-size>1")
    if p > 0:
        classes.add("outlier_prob>0")
    if case["clusters"] is not None and case.get("cluster_style") == "pyclone-vi" and len(exp_samples) > 1:
        classes.add("cluster-file:one-row-per-mutation-and-sample")
    if classes_numeric and len(exp_samples) > 1:
        classes.add("numeric-sample-ids")
    return Outcome(nontrivial=nontriv, classes=tuple(sorted(classes)), info=dict(rows=rows[:3], n_rows=len(rows), density=density, precision=prec, G=G, clusters=case["clusters"]), weight=len(rows))
