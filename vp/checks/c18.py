"""C18 — a seeded run is reproducible regardless of scheduling and hash seed.

E7 subprocess harness: each generated configuration (seed, proposal, outlier setting, 1-3 chains, tiny input table,
<= 6 iterations, <= 5 particles) is run as `python -m vp.runchain` several times: a reference run and re-runs under
different PYTHONHASHSEED values (0, 1, 4242, random), CPU affinities (one core / all) and per-chain start/finish delay
scripts that reverse the completion order of the chain workers.  Oracle: per chain number, the sequences of
(clades, outliers, node labels, parents), concentration values and log_p_one values are identical (bit-equal floats);
`time` and the dict order of chains are ignored.
Strata by shard: small inputs (1-3 chains); clustered heavy input (one cluster of 52 mutations, 200 sweeps); sub-tree
updates on branching data (150-250 sweeps); many clones (12-14 sharply separated mutations, grid 101, 1-3 prune-regraph and
1-2 data-point moves per sweep: trees of 10+ clones, graph indices that collide in small hash tables - found F12);
--assign-loss-prob with PyClone-VI style string cluster ids and tied truncal candidates.
"""
import gzip
import json
import os
import pickle
import re
import subprocess
import sys
import tempfile

from hypothesis import strategies as st

from vp import pyclone_oracle as po
from vp.common import SCRATCH, VERIF, HarnessError, Outcome, Violation

PROPERTY = "C18"
LEVEL = "exploration"
SHRINK = False
RULE = (
    "Hypothesis draws a run configuration and 3 perturbation variants (hash seed, affinity, per-chain delays that reverse "
    "the completion order). Each case costs 4 full `phyclone run` processes. Schedules are PERTURBED, not enumerated. "
    "Non-trivial: >= 2 chains and a variant whose observed completion order differs from the reference's, or a different "
    "hash seed. Distinct: hash of configuration + variants."
)
ASSUMPTIONS = [
    "OS schedules cannot be enumerated: reproducibility is explored under hash-seed, affinity and completion-order perturbations only",
    "per-chain delay wrapper reaches spawn workers through the re-imported main module (vp.runchain)",
]


STRATIFIED = True
PROPS = ("semi-adapted", "fully-adapted", "bootstrap")
HASHSEEDS = ("1", "2", "3", "4242", "random", "7", "12345", "99")


@st.composite
def _case(draw, shard):
    from vp.checks.c05 import _counts, _row_params

    heavy = shard % 6 == 1  # one stratum of long multi-chain runs on more data: cross-chain state leaks need many sweeps
    n = 10 if heavy else draw(st.integers(3, 6))
    dims = 3 if heavy else draw(st.integers(2, 3))
    rows = []
    for m in range(n):
        for s in range(dims):
            major, minor, normal, t, eps = 1, 1, 2, 1.0, 0.001
            depth = draw(st.sampled_from([100, 60, 300]))
            # two groups of mutations whose allele fractions are anti-correlated across samples: they cannot sit on one
            # lineage, so sampled trees branch (nodes with >= 2 children exercise the children convolution and its memo)
            hi = (m % 2) == (s % 2)
            alt = min(depth, (draw(st.sampled_from([20, 25, 16])) if hi else draw(st.sampled_from([3, 1, 5]))) * depth // 100 + m % 3)
            rows.append(dict(mutation_id="mut_%s" % "abcdefghijklmnop"[m], sample_id="s%d" % s, ref_counts=depth - alt, alt_counts=alt, major_cn=major, minor_cn=minor, normal_cn=normal, tumour_content=t, error_rate=eps))
    chains = [2, 3, 2, 1, 3, 2][shard % 6]
    clusters = None
    many = shard % 6 == 4
    if many:
        # stratum of sharply separated mutations on one lineage: sampled trees reach 10-14 clones, where graph indices
        # above 8 exist (set/hash-table iteration orders of small ints only vary once values collide modulo the table
        # size), with several prune-regraph moves per sweep and sub-tree updates so that an edited tree is edited again
        n = draw(st.integers(12, 14))
        rows = []
        for m in range(n):
            for s in range(2):
                depth = draw(st.sampled_from([3000, 2500, 4000]))
                alt = int(depth * ((0.48 if s == 0 else 0.47) - 0.03 * m)) + draw(st.integers(0, 9))
                rows.append(dict(mutation_id="mut_%02d" % m, sample_id="s%d" % s, ref_counts=depth - alt, alt_counts=alt, major_cn=1, minor_cn=1, normal_cn=2, tumour_content=1.0, error_rate=0.001))
        chains = 2
    if heavy:
        # pre-clustered input with one cluster of 52 mutations (summing many grids is where a parallel reduction would go)
        base_rows = list(rows)
        rows = []
        clusters = {}
        for r in base_rows:
            m_id = r["mutation_id"]
            reps = 52 if m_id == "mut_a" else 1
            for j in range(reps):
                rr = dict(r, mutation_id="%s_%d" % (m_id, j), alt_counts=min(r["ref_counts"] + r["alt_counts"], r["alt_counts"] + (j % 3)))
                rr["ref_counts"] = r["ref_counts"] + r["alt_counts"] - rr["alt_counts"]
                rows.append(rr)
                clusters[rr["mutation_id"]] = "abcdefghijklmnop".index(m_id[-1])
    cluster_rows = None
    if shard % 6 == 5:
        # pre-clustered input in PyClone-VI's layout with string cluster ids and --assign-loss-prob: the loader picks a
        # truncal cluster (two clusters tie for the top prevalence in every sample here) and runs a permutation test with
        # the seeded generator; which clusters get the high loss prior depends on that pick
        base_rows, rows, cluster_rows = list(rows), [], []
        sizes = dict(a=5, b=4, c=4)
        for r in base_rows:
            letter = r["mutation_id"][-1]
            for j in range(sizes.get(letter, 1)):
                rr = dict(r, mutation_id="%s_%d" % (r["mutation_id"], j), alt_counts=min(r["ref_counts"] + r["alt_counts"], r["alt_counts"] + (j % 2)))
                rr["ref_counts"] = r["ref_counts"] + r["alt_counts"] - rr["alt_counts"]
                rows.append(rr)
                prev = 0.95 if letter in "ab" else [0.5, 0.3, 0.1, 0.2][("abcdefghijklmnop".index(letter) + int(r["sample_id"][1:])) % 4]
                chrom = "chr1" if letter == "b" else "chr%d" % (1 + (j + "abcdefghijklmnop".index(letter)) % 5)
                cluster_rows.append([rr["mutation_id"], r["sample_id"], "cl_" + letter, prev, chrom])
    variants = []
    for v in range(3):
        rev = draw(st.sampled_from([True, False])) or v == shard % 3
        delays = {}
        if chains > 1 and rev:
            for c in range(chains):
                delays[str(c)] = [1.5 * (chains - 1 - c), 0.0] if v % 2 == 0 else [0.0, 1.5 * (chains - 1 - c)]
        aff = draw(st.sampled_from([None, 0, 3])) if (shard + v) % 3 else (shard + v) % 5
        if heavy and v == 0:
            aff, delays = 2, {}
        variants.append(dict(hashseed=HASHSEEDS[(shard * 3 + v + draw(st.integers(0, 7))) % 8], aff=aff, delays=delays))
    case = dict(
        rows=rows,
        chains=chains,
        seed=(draw(st.integers(0, 2 ** 31 - 1)) + 7919 * shard) % (2 ** 31),
        proposal=PROPS[shard % 3],
        outlier_prob=[0.7, 0.0, 0.3][(shard // 2) % 3],
        iters=(200 if heavy else draw(st.integers(12, 20))) if shard % 3 else draw(st.integers(60, 120)),
        N=10 if heavy else draw(st.integers(2, 5)),
        subtree_prob=draw(st.sampled_from([0.0, 0.5])),
        conc_update=(shard % 4 != 2),
        variants=variants,
        clusters=clusters,
    )
    if shard % 6 == 2:
        # sub-tree updates on branching data for many sweeps: the re-sampled sub-tree is often a forest of several clones
        # that is grafted back as a whole (the only place where several edges are attached in one edit)
        case.update(subtree_prob=0.5, iters=draw(st.integers(150, 250)), N=draw(st.integers(4, 8)))
    if cluster_rows is not None:
        case.update(cluster_rows=cluster_rows, assign_loss=True, outlier_prob=0.001)
    if many:
        nprg = draw(st.sampled_from([3, 1, 2]))
        case.update(
            proposal=draw(st.sampled_from(PROPS)), outlier_prob=draw(st.sampled_from([0.0, 0.0, 0.001])), iters=draw(st.integers(120, 200)), N=10,
            grid_size=101, nprg=nprg, ndp=draw(st.sampled_from([1, 2])), subtree_prob=0.5 if nprg == 1 else draw(st.sampled_from([0.0, 0.5])),
        )
    return case


def strategy(ctx, shard=0):
    return _case(shard)


def budget(ctx):
    return dict(max_examples=ctx.pick(6, 60), shards=ctx.pick(6, 12))


def _launch(case, td, name, hashseed, aff, delays):
    out = os.path.join(td, name + ".pkl.gz")
    kw = dict(
        in_file=os.path.join(td, "in.tsv"), out_file=out, cluster_file=(os.path.join(td, "clusters.tsv") if case.get("clusters") or case.get("cluster_rows") else None), assign_loss_prob=bool(case.get("assign_loss")), burnin=1, num_iters=case["iters"], num_particles=case["N"], grid_size=case.get("grid_size", 11), num_samples_prune_regraph=case.get("nprg", 1), num_samples_data_point=case.get("ndp", 1), seed=case["seed"], num_chains=case["chains"],
        proposal=case["proposal"], outlier_prob=case["outlier_prob"], subtree_update_prob=case["subtree_prob"], concentration_update=case["conc_update"], print_freq=1000, density="binomial",
    )
    env = dict(os.environ)
    env.update(PYTHONPATH="%s:%s" % (VERIF, os.environ.get("PHYCLONE_REPO", "/repo")), PYTHONHASHSEED=hashseed, PYTHONDONTWRITEBYTECODE="1", VP_DELAYS=json.dumps(delays or {}))
    for k in ("OMP_NUM_THREADS", "NUMBA_NUM_THREADS", "OPENBLAS_NUM_THREADS", "MKL_NUM_THREADS"):
        env.pop(k, None)
    if aff is not None:
        env["VP_AFF"] = str(aff % (os.cpu_count() or 1))
    else:
        env.pop("VP_AFF", None)
    log = open(os.path.join(td, name + ".log"), "w")
    p = subprocess.Popen([sys.executable, "-m", "vp.runchain", json.dumps(kw)], env=env, stdout=log, stderr=subprocess.STDOUT, cwd=VERIF)
    return p, out, log


def _load(path):
    from phyclone.tree import Tree

    with gzip.GzipFile(path, "rb") as fh:
        res = pickle.load(fh)
    out = {}
    for cn, r in res.items():
        seq = []
        for e in r["trace"]:
            t = Tree.from_dict(e["tree"])
            parents = tuple(sorted((str(n), str(t.get_parent(n))) for n in t.nodes))
            seq.append((e["iter"], tuple(sorted(t.labels.items())), parents, tuple(sorted(dp.idx for dp in t.outliers)), float(e["alpha"]).hex(), float(e["log_p_one"]).hex()))
        if r["chain_num"] != cn:
            raise Violation("chain-key", "chain stored under key %r reports chain_num %r" % (cn, r["chain_num"]), {})
        out[cn] = seq
    return out


def evaluate(case):
    os.makedirs(SCRATCH, exist_ok=True)
    with tempfile.TemporaryDirectory(dir=SCRATCH) as td:
        po.write_table(case["rows"], os.path.join(td, "in.tsv"))
        if case.get("clusters"):
            po.write_clusters(case["clusters"], os.path.join(td, "clusters.tsv"))
        if case.get("cluster_rows"):
            with open(os.path.join(td, "clusters.tsv"), "w") as f:
                f.write("mutation_id\tsample_id\tcluster_id\tcellular_prevalence\tchrom\n")
                for r in case["cluster_rows"]:
                    f.write("%s\t%s\t%s\t%s\t%s\n" % tuple(r))
        runs = [("ref", "0", None, {})] + [("v%d" % i, v["hashseed"], v["aff"], v["delays"]) for i, v in enumerate(case["variants"])]
        procs = [(_launch(case, td, *r), r) for r in runs]
        outs = {}
        orders = {}
        for (p, out, log), r in procs:
            try:
                rc = p.wait(timeout=900)
            except subprocess.TimeoutExpired:
                p.kill()
                raise HarnessError("phyclone run did not finish within 900 s (inconclusive)")
            log.close()
            with open(os.path.join(td, r[0] + ".log")) as f:
                text = f.read()
            if rc != 0:
                # a failing run is C19's subject, but a run that fails only under a perturbation is a reproducibility defect
                outs[r[0]] = ("failed", text[-600:])
            else:
                outs[r[0]] = ("ok", _load(out))
            orders[r[0]] = [int(x) for x in re.findall(r"Finished chain (\d+)", text)]
        tags = dict(chains=case["chains"], proposal=case["proposal"], outliers=case["outlier_prob"] > 0)
        if outs["ref"][0] != "ok":
            raise HarnessError("reference run failed (C19's subject, not a reproducibility result): %s" % outs["ref"][1])
        ref = outs["ref"][1]
        if sorted(ref) != list(range(case["chains"])):
            raise Violation("chains-missing", "trace holds chains %r, expected 0..%d" % (sorted(ref), case["chains"] - 1), tags)
        classes = ["chains=%d" % case["chains"], "prop:" + case["proposal"]]
        if any(len({p for _, p in e[2]}) < len(e[2]) for seq in ref.values() for e in seq):
            classes.append("trace-entry-with-branching-tree")
        if any(len(e[3]) >= 2 for seq in ref.values() for e in seq):
            classes.append("trace-entry-with>=2-outliers")
        if case["outlier_prob"] > 0:
            classes.append("outliers-on")
        if any(len(e[2]) >= 10 for seq in ref.values() for e in seq):
            classes.append("trace-entry-with>=10-clones")
        if case.get("assign_loss"):
            classes.append("assign-loss-prob-with-tied-truncal-candidates")
        if case.get("nprg", 1) > 1:
            classes.append("several-prune-regraph-moves-per-sweep")
        nontrivial = False
        for (name, hs, aff, delays) in runs[1:]:
            st_, got = outs[name]
            what = "hashseed=%s aff=%s delays=%s" % (hs, aff, delays)
            if st_ != "ok":
                raise Violation("perturbed-run-failed", "the run failed under %s while the reference run succeeded: %s" % (what, got[-300:]), dict(tags, hashseed=hs))
            if sorted(got) != sorted(ref):
                raise Violation("chains-differ", "chains %r vs reference %r under %s" % (sorted(got), sorted(ref), what), tags)
            for cn in sorted(ref):
                if got[cn] != ref[cn]:
                    j = next((i for i, (a, b) in enumerate(zip(got[cn], ref[cn])) if a != b), min(len(got[cn]), len(ref[cn])))
                    raise Violation(
                        "trace-differs",
                        "chain %d differs from the reference run at entry %d under %s (same seed %d): %r vs %r" % (cn, j, what, case["seed"], got[cn][j] if j < len(got[cn]) else None, ref[cn][j] if j < len(ref[cn]) else None),
                        dict(tags, hashseed=hs, reordered=orders[name] != orders["ref"]),
                    )
            if orders[name] != orders["ref"]:
                classes.append("completion-order-changed")
                nontrivial = nontrivial or case["chains"] >= 2
            if hs != "0":
                classes.append("hashseed:" + hs)
                nontrivial = nontrivial or case["chains"] >= 2
            if aff is not None:
                classes.append("single-core-affinity")
        return Outcome(nontrivial=nontrivial, classes=tuple(sorted(set(classes))), info=dict(config={k: v for k, v in case.items() if k not in ("rows", "cluster_rows")}, completion_orders=orders), weight=len(runs))
