"""C06 — incrementally maintained likelihoods equal a from-scratch rebuild.

Same generated edit programs as C07; after EVERY applied step each clone's cached log_p / log_r, the root vector
(forests with >= 1 clone) and both joint log-densities are compared (1e-8) with a tree freshly built
(post-order create_root_node) from the model.  Data stay inside the underflow window (moderate/ties/flat).
"""
from vp import editmachine as em
from vp.common import Outcome

PROPERTY = "C06"
LEVEL = "exploration"
RULE = (
    "Hypothesis draws an edit program as in C07 (same grammar, incl. real sampler invocations). After every applied step "
    "the tree is compared with a from-scratch rebuild of the model. Non-trivial: a removal (move/prune/subtree cycle) "
    "followed by >= 1 further edit. Distinct: hash of the whole program."
)
ASSUMPTIONS = [
    "data dynamic range inside the underflow window of C02 so flooring cannot differ between histories",
    "per-node vectors are read from the node payloads (log_p, log_r)",
    "tolerance 1e-8 covers the rounding drift of repeated add/remove",
]


STRATIFIED = True


def strategy(ctx, shard=0):
    return em.st_program(max_points=6, max_edits=ctx.pick(30, 60), samplers=True, forks=False, sampler_heavy=(shard % 4 == 3), big=(shard % 8 == 6))


def budget(ctx):
    return dict(max_examples=ctx.pick(3200, 120000), shards=16)


def warmup():
    from vp.checks import c07

    c07.warmup()


def evaluate(case):
    steps = [0]
    worst = [0.0]

    def on_step(m, i, name):
        steps[0] += 1
        where = "after step %d (%s)" % (i, name)
        mt = m.model.to_mtree()
        worst[0] = max(worst[0], em.compare_with_rebuild(m, m.tree, mt, where=where))
        em.check_ghosts(m, where, structural=False, values=True)

    def probe(m, t, partial, label):
        if label.startswith("after-remove_subtree"):
            em.compare_with_rebuild(m, t, partial.to_mtree(), where="inside an edit, " + label)

    m = em.Machine(case, on_step=on_step, probe=probe).run()
    classes = set(m.classes)
    for a in set(m.applied):
        classes.add("op:" + a)
    return Outcome(
        nontrivial=m.removal_seen and m.edit_after_removal,
        classes=tuple(sorted(classes)),
        info=dict(n=case["n"], applied=m.applied, skipped=m.skipped, final=m.model.to_mtree().to_json(), max_abs_dev=worst[0]),
        weight=steps[0],
    )
