"""C02 — tree likelihood equals the exact CCF-grid marginal under the sum constraint.

Oracle chain: brute_marginal (the literal sum of the statement; tiny G^K) == dp_marginal (exact log-space
recursion, no truncation; harness self-check) -> interval oracle: lower/upper bounds propagated through the
same recursion where each children-convolution may deviate by rounding, and may be raised by at most
1e-100 x (children's peak product) [direct path, G < 1000] or perturbed by 1e-14*G x peak product [FFT path].
The reported root vector and every clone's vector must lie inside the bracket and be finite; where the exact
value is above the floor the bracket collapses to floating-point agreement.
"""
import math

import numpy as np
from hypothesis import strategies as st
from scipy.special import logsumexp

from vp import gen
from vp.common import HarnessError, Outcome, Violation, crash_violation
from vp.model import MTree, brute_marginal, dp_marginal, node_log_p, to_tree_grid

PROPERTY = "C02"
LEVEL = "exploration"
STRATIFIED = True
RULE = (
    "Hypothesis draws a forest by construction (1-6 clones, any branching, 1-4 top-level clones, data assignment), "
    "dims 1-4, value regime (flat/moderate/spiky/ties/wide range) and a grid size from {2..8} (brute-force self-check), "
    "{9..200, 999} (direct path) or {1000, 1001, 1500} (FFT path), stratified over shards. Non-trivial: >= 2 clones and "
    "(a clone with >= 2 children or depth >= 2). Distinct: (tree key, grid, dims, data seed/regime)."
)
ASSUMPTIONS = [
    "trees are built through the public editing API (create_root_node post-order)",
    "per-clone vectors are read from the node payloads (log_r); if that internal layout changes only the root vector is compared",
    "FFT bracket: absolute error per pairwise convolution <= 1e-14*G x operands' peak product (measured 7e-17*G)",
]
LOG_FLOOR = math.log(1e-100)
DELTA = 1e-11  # log-domain rounding slack per operation


def _conv_exact(a, b):
    G = len(a)
    out = np.empty(G)
    for k in range(G):
        out[k] = logsumexp(a[: k + 1] + b[k::-1][: k + 1])
    return out


@st.composite
def _case(draw, shard):
    cls = ["tiny", "tiny", "mid", "fft"][shard % 4] if shard % 8 != 7 else "mid999"
    if cls == "tiny":
        G = draw(st.integers(2, 6))
        n = draw(st.integers(1, 5))
    elif cls == "mid":
        G = draw(st.sampled_from([9, 16, 33, 101, 200, 64]))
        n = draw(st.integers(2, 7))
    elif cls == "mid999":
        G = 999
        n = draw(st.integers(2, 5))
    else:
        G = draw(st.sampled_from([1000, 1001, 1500]))
        n = draw(st.integers(2, 5))
    n_roots = draw(st.sampled_from([1, 2, None, 3, None, 4]))
    if n_roots is not None:
        n = max(n, n_roots)
    mt = draw(gen.st_mtree(indices=list(range(n)), n_roots=n_roots))
    return dict(
        mtree=mt,
        G=G,
        dims=draw(st.sampled_from([1, 2, 1, 3, 4])),
        values=draw(gen.st_values_spec()),
        sib=draw(st.lists(st.integers(0, 7), min_size=1, max_size=4)),
        cls=cls,
    )


def strategy(ctx, shard=0):
    return _case(shard)


def budget(ctx):
    return dict(max_examples=ctx.pick(640, 8000), shards=16)


def warmup():
    evaluate(dict(mtree=dict(blocks=[[0], [1], [2]], parent=[-1, 0, 0], outliers=[]), G=4, dims=1, values=dict(seed=1, regime="moderate", scale=1.0), sib=[0], cls="tiny"))


def bracket(mt: MTree, values, G, fft):
    """returns (root_lo, root_hi, R_lo[], R_hi[]) in log space"""
    lp = node_log_p(mt, values, G)
    dims = lp[0].shape[0]
    Rlo = [None] * mt.k
    Rhi = [None] * mt.k

    def S_bounds(children, dim):
        c = len(children)
        lo = hi = None
        for ch in children:
            lo = Rlo[ch][dim] if lo is None else _conv_exact(lo, Rlo[ch][dim])
            hi = Rhi[ch][dim] if hi is None else _conv_exact(hi, Rhi[ch][dim])
        if c >= 2:
            peaks_hi = sum(float(np.max(Rhi[ch][dim])) for ch in children)
            peaks_lo = sum(float(np.max(Rlo[ch][dim])) for ch in children)
            if not fft:
                raise_by = LOG_FLOOR + (c - 1) * math.log(G) + math.log(c) + peaks_hi
                hi = np.logaddexp(hi, raise_by) + DELTA * c
                cut = math.log(1e-280) + peaks_lo
                lo = np.where(lo < cut, -np.inf, lo - DELTA * c)
            else:
                abs_hi = math.log((c - 1) * 1e-14) + (c - 1) * math.log(G) + peaks_hi
                abs_lo = math.log((c - 1) * 1e-14) + (c - 1) * math.log(G) + peaks_lo
                hi = np.logaddexp(np.logaddexp(hi, abs_hi), LOG_FLOOR + (c - 1) * math.log(G) + peaks_hi) + 1e-9
                # lower: conv - abs error; if that is not clearly positive nothing is claimed (only finiteness)
                with np.errstate(divide="ignore", invalid="ignore"):
                    lo = np.where(lo > abs_lo + math.log(4.0), lo + np.log1p(-np.exp(np.minimum(abs_lo - lo, -1e-300))) - 1e-9, -np.inf)
        return np.logaddexp.accumulate(lo), np.logaddexp.accumulate(hi)

    for v in mt.postorder():
        ch = mt.children(v)
        if not ch:
            Rlo[v] = lp[v] - DELTA
            Rhi[v] = lp[v] + DELTA
        else:
            los, his = zip(*[S_bounds(ch, d) for d in range(dims)])
            Rlo[v] = lp[v] + np.stack(los) - DELTA
            Rhi[v] = lp[v] + np.stack(his) + DELTA
    roots = mt.roots()
    los, his = zip(*[S_bounds(roots, d) for d in range(dims)])
    return np.stack(los) - math.log(G) - DELTA, np.stack(his) - math.log(G) + DELTA, Rlo, Rhi


def evaluate(case):
    gen.clear_caches()
    mt = MTree.from_json(case["mtree"])
    G, dims = case["G"], case["dims"]
    n = len(mt.all_data())
    vs = case["values"]
    values = gen.make_values(n, dims, G, vs["seed"], vs["regime"], vs["scale"])
    data = gen.make_datapoints(values)
    fft = G >= 1000
    tags = dict(G=G, dims=dims, fft=fft, k=mt.k, regime=vs["regime"], max_children=max([len(mt.children(i)) for i in range(-1, mt.k)]))
    path = "fft" if fft else "direct"
    try:
        tree = to_tree_grid(mt, data, (dims, G), sibling_perm=case.get("sib"))
        rep_root = np.array(tree.data_log_likelihood, dtype=float)
    except Exception as e:
        raise crash_violation("crash/" + path, e, tags)
    exact_root, exact_R = dp_marginal(mt, values, G)
    if G ** mt.k <= 8000 and G <= 6:
        bm = brute_marginal(mt, values, G)
        if np.nanmax(np.abs(bm - exact_root)) > 1e-9:
            raise HarnessError("oracle self-check: brute-force marginal and log-space DP disagree by %r on %r" % (float(np.nanmax(np.abs(bm - exact_root))), mt))
    lo, hi, Rlo, Rhi = bracket(mt, values, G, fft)
    if not (np.all(lo <= exact_root + 1e-9) and np.all(exact_root <= hi + 1e-9)):
        raise HarnessError("bracket does not contain the exact value")
    if rep_root.shape != (dims, G):
        raise Violation("shape/" + path, "root vector has shape %r, expected %r" % (rep_root.shape, (dims, G)), tags)

    def cmp(rep, lo_, hi_, ex, what):
        if not np.all(np.isfinite(rep)):
            raise Violation("non-finite/" + path, "%s has non-finite entries (tree %r, G=%d)" % (what, mt, G), tags)
        tol = 1e-9
        bad_lo = rep < lo_ - tol
        bad_hi = rep > hi_ + tol
        if bad_lo.any() or bad_hi.any():
            d, k = np.argwhere(bad_lo | bad_hi)[0]
            kind = "below" if bad_lo[d, k] else "above"
            raise Violation(
                "marginal-%s/%s" % (kind, path),
                "%s[%d,%d]=%.15g is %s the bracket [%.15g, %.15g] around the exact marginal %.15g (tree %r, G=%d, regime %s)"
                % (what, d, k, rep[d, k], kind, lo_[d, k], hi_[d, k], ex[d, k], mt, G, vs["regime"]),
                dict(tags, what=what.split()[0]),
                dict(dim=int(d), k=int(k), reported=float(rep[d, k]), exact=float(ex[d, k])),
            )

    cmp(rep_root, lo, hi, exact_root, "root vector")
    # per-clone vectors (internal layout; skipped if unavailable)
    try:
        names = _clone_names(tree, mt)
        for i, nm in names.items():
            rep = np.array(tree._graph[tree._node_indices[nm]].log_r, dtype=float)
            cmp(rep, Rlo[i], Rhi[i], exact_R[i], "clone %d vector" % i)
    except (AttributeError, KeyError):
        pass
    width = float(np.max(hi - lo))
    classes = ["grid:" + case.get("cls", "?"), "dims=%d" % dims, "regime:" + vs["regime"]]
    if max(len(mt.children(i)) for i in range(mt.k)) >= 3 if mt.k else False:
        classes.append("children>=3")
    if len(mt.roots()) >= 2:
        classes.append("multi-root")
    if width > 1e-6:
        classes.append("floor-reached(bracket open)")
    else:
        classes.append("bracket-collapsed(fp agreement enforced)")
    nontriv = mt.k >= 2 and (any(len(mt.children(i)) >= 2 for i in range(-1, mt.k)) or any(mt.depth(i) >= 1 for i in range(mt.k)))
    return Outcome(
        nontrivial=nontriv,
        classes=tuple(classes),
        key=[mt.jkey(), G, dims, vs],
        info=dict(mtree=case["mtree"], G=G, dims=dims, values=vs, bracket_width=width, max_abs_dev=float(np.max(np.abs(rep_root - exact_root)))),
    )


def _clone_names(tree, mt):
    """map model clone index -> real node name, by data content (clones with data) or clade"""
    names = {}
    by_data = {}
    for nm in tree.nodes:
        by_data[frozenset(dp.idx for dp in tree.get_data(nm))] = nm
    for i, b in enumerate(mt.blocks):
        if b and frozenset(b) in by_data:
            names[i] = by_data[frozenset(b)]
    return names
