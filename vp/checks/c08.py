"""C08 — SMC proposals are normalised, faithfully sampled, complete, correctly weighted.

(a) completeness + normalisation: the harness enumerates every placement of the next data point itself
    (each top-level clone; a new clone above each subset of top-level clones; the outlier set when enabled),
    builds each candidate the way the conditional sampler does and requires sum exp(log_p) = 1 +- 1e-9, all finite.
(b) faithful sampling: EnumRNG gives the exact law of sample(); it must equal exp(log_p) per tree (1e-12)
    and put no mass outside (a).
(c) weights: along the constrained path of a generated tree and compatible order, each particle's log_w equals
    [log_p + log_pdf](T_t) - [log_p + log_pdf](T_{t-1}) - log_q_t with log_p from the joint density on an independently
    built partial tree and log_pdf = -log(#compatible orders) from the model, so the product telescopes to the final
    target log_p_one(T) + log_pdf(T) after the last-step correction.
"""
import itertools
import math

import numpy as np
from hypothesis import strategies as st

from vp import exact, gen
from vp.common import HarnessError, Outcome, Violation, crash_violation
from vp.enumrng import EnumRNG, explore
from vp.model import MTree, count_linear_extensions_formula, linear_extensions, to_tree_grid, tree_key

PROPERTY = "C08"
LEVEL = "exploration"
RULE = (
    "Hypothesis draws a parent state (none / outliers only / 1-4 top-level clones with nested children, with or without "
    "outliers; built the way particles are), the next data point's values, proposal kind, outlier proposal probability "
    "(0, 0.1 or drawn), permutation distribution on/off and alpha; plus a full tree with a compatible order for the weight "
    "identity. Non-trivial: parent has >= 1 clone or >= 1 outlier. Distinct: (parent key, kind, opp, perm, alpha, data seed)."
)
ASSUMPTIONS = [
    "proposal objects are obtained through kernel.get_proposal_distribution exactly as the samplers do",
    "parents up to 5 data points / 4 top-level clones; weight paths up to 6 data points",
]
KINDS = ("bootstrap", "semi", "fully")


@st.composite
def _case(draw, shard):
    kind = KINDS[shard % 3]
    perm = bool((shard // 3) % 2)
    n_roots = draw(st.sampled_from([1, 2, 0, 3, 4, 2, 1]))
    m = draw(st.integers(n_roots, 6)) if n_roots > 0 else draw(st.integers(0, 2))
    opp = draw(st.sampled_from([0.1, 0.0, 0.5, 0.9, 0.01, 0.0]))
    if m == 0:
        parent = None
    elif n_roots == 0:
        parent = dict(blocks=[], parent=[], outliers=list(range(m)))
    else:
        parent = draw(gen.st_mtree(indices=list(range(m)), outliers=opp > 0, max_outliers=min(2, m - n_roots), n_roots=n_roots))
    if parent is not None and parent["outliers"] and opp == 0.0:
        opp = 0.1  # a parent holding outliers only arises when outlier modelling is on
    n_full = draw(st.sampled_from([3, 4, 2, 5, 1, 6]))
    full = draw(gen.st_mtree(indices=list(range(n_full)), outliers=opp > 0, max_outliers=2))
    return dict(
        parent=parent,
        m=m,
        kind=kind,
        opp=opp,
        perm=perm,
        alpha=draw(st.sampled_from([1.0, 0.3, 2.5, 0.1, 7.0])),
        dims=draw(st.sampled_from([1, 1, 2])),
        G=draw(st.integers(2, 6)),
        values=draw(gen.st_values_spec(regimes=("moderate", "ties", "flat", "spiky"))),
        outlier_prior=draw(st.sampled_from([0.05, 0.3])) if opp > 0 else 0.0,
        full=full,
        order_idx=draw(st.integers(0, 10 ** 6)),
        prev_alpha=draw(st.sampled_from([None, 3.0, None, 0.25])),
    )


STRATIFIED = True


def strategy(ctx, shard=0):
    return _case(shard)


def budget(ctx):
    return dict(max_examples=ctx.pick(1200, 60000), shards=24)


def warmup():
    evaluate(dict(parent=dict(blocks=[[0]], parent=[-1], outliers=[]), m=1, kind="fully", opp=0.0, perm=True, alpha=1.0, dims=1, G=3, values=dict(seed=1, regime="moderate", scale=1.0), outlier_prior=0.0, full=dict(blocks=[[0], [1]], parent=[-1, 0], outliers=[]), order_idx=0))


def _kernel(case, tree_dist, rng):
    from phyclone.smc.utils import RootPermutationDistribution

    perm = RootPermutationDistribution() if case["perm"] else None
    return exact.kernel_class(case["kind"])(tree_dist, rng, outlier_proposal_prob=case["opp"], perm_dist=perm), perm


def evaluate(case):
    from phyclone.smc.swarm import Particle, TreeHolder
    from phyclone.tree import FSCRPDistribution, Tree, TreeJointDistribution

    gen.clear_caches()
    kind, opp = case["kind"], case["opp"]
    m = case["m"]
    n_full = len(MTree.from_json(case["full"]).all_data())
    nvals = max(m + 1, n_full)
    values = gen.make_values(nvals, case["dims"], case["G"], case["values"]["seed"], case["values"]["regime"], case["values"]["scale"])
    grid = (case["dims"], case["G"])
    tree_dist = TreeJointDistribution(FSCRPDistribution(float(case["alpha"])))
    rng = EnumRNG()
    kernel, perm = _kernel(case, tree_dist, rng)
    tags = dict(kind=kind, opp=opp, perm=case["perm"], m=m)
    classes = ["kind:" + kind, "perm" if case["perm"] else "noperm", "opp=0" if opp == 0 else "opp>0"]

    # ---------------- (a) + (b) on the parent state
    data = gen.make_datapoints(values, outlier_prior=case["outlier_prior"])
    dp = data[m]
    if case["parent"] is None:
        pm = None
        parent_tree = None
        parent_particle = None
        roots = []
        classes.append("parent:none")
    else:
        pm = MTree.from_json(case["parent"])
        parent_tree = to_tree_grid(pm, data, grid)
        parent_particle = Particle(0, None, TreeHolder(parent_tree, tree_dist, perm), tree_dist, perm)
        roots = list(parent_tree.roots)
        classes.append("parent:outliers-only" if pm.k == 0 else "parent:roots=%d" % min(len(roots), 4))
        if pm.k > 0 and pm.outliers:
            classes.append("parent:clones+outliers")
    tags["n_roots"] = len(roots)
    tags["parent_outliers_only"] = bool(pm is not None and pm.k == 0)

    def base():
        return Tree(grid) if parent_tree is None else parent_tree.copy()

    # pre-history on the same kernel / tree_dist / caches under another concentration value, then change it in place
    keep_caches = case.get("prev_alpha") is not None
    if keep_caches:
        tree_dist.prior.alpha = float(case["prev_alpha"])
        try:
            explore(lambda: tree_key(kernel.propose_particle(dp, parent_particle).tree), rng, max_leaves=5000)
        except Exception as e:
            raise crash_violation("propose/%s" % kind, e, tags)
        tree_dist.prior.alpha = float(case["alpha"])
        if parent_particle is not None:
            parent_particle = Particle(0, None, TreeHolder(parent_tree, tree_dist, perm), tree_dist, perm)
        classes.append("alpha-changed-in-place-before")

    cands = {}
    try:
        for r in roots:
            t = base()
            t.add_data_point_to_node(dp, r)
            cands[tree_key(t)] = ("existing", t)
        for k in range(len(roots) + 1):
            for sub in itertools.combinations(roots, k):
                t = base()
                node = t.create_root_node(children=list(sub))
                t.add_data_point_to_node(dp, node)
                cands[tree_key(t)] = ("new:%d" % k, t)
        if opp > 0:
            t = base()
            t.add_data_point_to_outliers(dp)
            cands[tree_key(t)] = ("outlier", t)
        expected_n = len(roots) + 2 ** len(roots) + (1 if opp > 0 else 0)
        if len(cands) != expected_n:
            raise HarnessError("placement enumeration produced %d distinct trees, expected %d" % (len(cands), expected_n))
        prop = kernel.get_proposal_distribution(dp, parent_particle, parent_tree)
        logq = {}
        for key, (what, t) in cands.items():
            holder = TreeHolder(t, tree_dist, perm)
            v = float(prop.log_p(holder))
            if not math.isfinite(v):
                raise Violation("support/%s" % kind, "placement %s has non-finite proposal log-probability %r (parent %r)" % (what, v, pm), dict(tags, what=what))
            logq[key] = v
    except (Violation, HarnessError):
        raise
    except KeyError as e:
        raise Violation("support/%s" % kind, "a placement is missing from the proposal's support (KeyError %s) (parent %r)" % (str(e)[:60], pm), tags)
    except Exception as e:
        raise crash_violation("proposal/%s" % kind, e, tags)
    tot = sum(math.exp(v) for v in logq.values())
    if abs(tot - 1) > 1e-9:
        raise Violation("normalisation/%s" % kind, "reported proposal probabilities sum to %.12g over the %d placements (parent %r, opp=%s)" % (tot, len(logq), pm, opp), dict(tags, total=tot))

    # (b) exact sampling law
    if not keep_caches:
        gen_clear_prop_only()
    prop = kernel.get_proposal_distribution(dp, parent_particle, parent_tree)

    def draw_one():
        s = prop.sample()
        t = s if isinstance(s, Tree) else s.tree
        return tree_key(t)

    try:
        res = explore(draw_one, rng, max_leaves=20000)
    except Exception as e:
        raise crash_violation("sample/%s" % kind, e, tags)
    law = {}
    for p, o in res:
        law[o] = law.get(o, 0.0) + p
    if abs(sum(law.values()) - 1) > 1e-12:
        raise HarnessError("sampling law sums to %r" % sum(law.values()))
    for key, p in law.items():
        if key not in logq:
            raise Violation("sampling-law/%s" % kind, "sample() returns a tree outside the enumerated placements: %r" % (key,), tags)
    for key, v in logq.items():
        p = law.get(key, 0.0)
        if abs(p - math.exp(v)) > 1e-12 + 1e-9 * math.exp(v):
            raise Violation(
                "sampling-law/%s" % kind,
                "placement %s is drawn with probability %.12g but reported as %.12g (parent %r, opp=%s)" % (cands[key][0], p, math.exp(v), pm, opp),
                dict(tags, what=cands[key][0]),
            )

    # (b') particles proposed by the kernel carry the right incremental weight
    from vp.model import from_tree

    if not keep_caches:
        gen_clear_prop_only()

    def lpdf(t):
        return -math.log(count_linear_extensions_formula(from_tree(t))) if case["perm"] else 0.0

    base_w = 0.0 if parent_tree is None else float(tree_dist.log_p(parent_tree)) + lpdf(parent_tree)

    def draw_particle():
        pt = kernel.propose_particle(dp, parent_particle)
        return (tree_key(pt.tree), float(pt.log_w))

    try:
        resp = explore(draw_particle, rng, max_leaves=20000)
    except Exception as e:
        raise crash_violation("propose/%s" % kind, e, tags)
    for pr, (key, lw) in resp:
        if key not in cands:
            raise Violation("sampling-law/%s" % kind, "propose_particle returns a tree outside the enumerated placements: %r" % (key,), tags)
        t = cands[key][1]
        expect = float(tree_dist.log_p(t)) + lpdf(t) - base_w - logq[key]
        if not abs(lw - expect) <= 1e-8 * max(1.0, abs(expect)):
            raise Violation(
                "weights/%s/proposed" % kind,
                "proposed particle (%s) has log_w %.12g, expected target ratio minus proposal = %.12g (parent %r, perm=%s)" % (cands[key][0], lw, expect, pm, case["perm"]),
                dict(tags, what=cands[key][0]),
            )

    # ---------------- (c) weights along a constrained path
    wl = _weights(case, values, grid, tree_dist, tags, classes)
    nontrivial = pm is not None and (pm.k > 0 or len(pm.outliers) > 0)
    return Outcome(
        nontrivial=nontrivial,
        classes=tuple(classes),
        key=[case["parent"], kind, opp, case["perm"], case["alpha"], case["values"], case["dims"], case["G"]],
        info=dict(parent=case["parent"], kind=kind, opp=opp, perm=case["perm"], placements=len(logq), path_len=wl),
        weight=len(res) + wl,
    )


def gen_clear_prop_only():
    from phyclone.utils.dev import clear_proposal_dist_caches

    clear_proposal_dist_caches()


def _restrict(mt: MTree, present):
    keep = [i for i in range(mt.k) if any(d in present for d in mt.blocks[i])]
    remap = {o: n for n, o in enumerate(keep)}
    blocks = [[d for d in mt.blocks[i] if d in present] for i in keep]
    parent = [(remap[mt.parent[i]] if mt.parent[i] in remap else -1) for i in keep]
    return MTree(blocks, parent, [d for d in mt.outliers if d in present])


def _weights(case, values, grid, tree_dist, tags, classes):
    from phyclone.smc.samplers import ConditionalSMCSampler
    from phyclone.smc.swarm import TreeHolder

    gen.clear_caches()
    kind = case["kind"]
    mt = MTree.from_json(case["full"])
    idxs = mt.all_data()
    data = gen.make_datapoints({i: values[i] for i in idxs}, outlier_prior=case["outlier_prior"])
    L = linear_extensions(mt)
    sigma = L[case["order_idx"] % len(L)]
    rng = EnumRNG()
    kernel, perm = _kernel(case, tree_dist, rng)
    tree = to_tree_grid(mt, data, grid)
    comp = "weights/%s" % kind
    try:
        sampler = ConditionalSMCSampler(tree, [data[i] for i in sigma], kernel, num_particles=2, resample_threshold=0.5)
        path = sampler.constrained_path
    except Exception as e:
        raise crash_violation(comp, e, tags)
    if len(path) != len(sigma) + 1 or path[0] is not None:
        raise Violation(comp, "constrained path has %d entries for %d data points" % (len(path), len(sigma)), tags)
    prev_lp = 0.0
    prev_pdf = 0.0
    prev_particle = None
    prev_tree = None
    total = 0.0
    for t in range(1, len(sigma) + 1):
        present = set(sigma[:t])
        rm = _restrict(mt, present)
        part = to_tree_grid(rm, data, grid)
        particle = path[t]
        if tree_key(particle.tree) != rm.key():
            raise Violation(comp, "constrained-path particle %d holds %r, expected the tree restricted to the first %d points %r" % (t, tree_key(particle.tree), t, rm), tags)
        lp = float(tree_dist.log_p(part))
        pdf = -math.log(count_linear_extensions_formula(rm)) if case["perm"] else 0.0
        # proposal probability of this step, from a fresh proposal object on an independently built parent
        gen_clear_prop_only()
        holder = TreeHolder(_as_built(rm, mt, sigma, t, data, grid), tree_dist, perm)
        q = float(kernel.get_proposal_distribution(data[sigma[t - 1]], prev_particle, prev_tree).log_p(holder))
        expect = (lp + pdf) - (prev_lp + prev_pdf) - q
        if not (abs(float(particle.log_w) - expect) <= 1e-8 * max(1.0, abs(expect))):
            raise Violation(
                comp,
                "step %d/%d: incremental weight %.12g, expected [log_p+log_pdf](T_t)-[..](T_t-1)-log_q = %.12g (tree %r, order %r, perm=%s)" % (t, len(sigma), float(particle.log_w), expect, mt, sigma, case["perm"]),
                dict(tags, step=t, last=(t == len(sigma))),
            )
        total += float(particle.log_w) + q
        prev_lp, prev_pdf = lp, pdf
        prev_particle = particle
        prev_tree = particle.tree
    # last-step correction applied by the sampler
    lp1 = float(tree_dist.log_p_one(tree))
    if hasattr(sampler, "_get_log_w"):
        sampler.iteration = sampler.num_iterations - 1
        final = float(sampler._get_log_w(path[-1]))
        expect_final = float(path[-1].log_w) - prev_lp + lp1
        if abs(final - expect_final) > 1e-8 * max(1.0, abs(expect_final)):
            raise Violation(comp + "/final", "last-step weight %.12g, expected log_w - log_p + log_p_one = %.12g" % (final, expect_final), tags)
    else:
        # internal helper renamed by a refactor: the last-step correction is then only observed through C01's
        # exact invariance (n = 1 with outliers is its minimal witness)
        classes.append("final-weight-helper-missing(skipped)")
    target = lp1 + prev_pdf
    got = total - prev_lp + lp1
    if abs(got - target) > 1e-7 * max(1.0, abs(target)):
        raise Violation(comp + "/telescope", "weights x proposals multiply to %.12g, target log_p_one+log_pdf = %.12g" % (got, target), tags)
    classes.append("path:len=%d" % min(len(sigma), 5))
    if mt.outliers:
        classes.append("path:outliers")
    return len(sigma)


def _as_built(rm, mt, sigma, t, data, grid):
    """the tree after t points built like the constrained path does, so that node_last_added_to is the clone that
    received sigma[t-1]"""
    from phyclone.tree import Tree

    tree = Tree(grid)
    name = {}
    owner = {}
    for i, b in enumerate(mt.blocks):
        for d in b:
            owner[d] = i
    for d in sigma[:t]:
        if d in mt.outliers:
            tree.add_data_point_to_outliers(data[d])
            continue
        c = owner[d]
        if c not in name:
            name[c] = tree.create_root_node(children=[name[x] for x in mt.children(c)])
        tree.add_data_point_to_node(data[d], name[c])
    return tree
