"""C16 — the consensus tree contains exactly the clades with majority support.

Traces whose trees are a base tree plus 0-3 local edits each (so majorities and near-majorities occur), or a structured
family built to reach the deep class "two retained clades that are each exactly the union of retained sub-clades";
thresholds from [0.5, 1] nudged >= 1e-6 away from every support value; both weighting modes; through the CLI.
Oracle: supports computed on the models (weighted mode: normalised exp(log_p_joint_max + log count) over distinct
topologies); expected family F = {clade : support > thr}; the returned tree's clade family (data under every clone,
empty clones included) must equal F, uncovered data points must be reported with clone -1, no exception.
"""
import math
import os
import tempfile

from hypothesis import strategies as st

from vp import gen, tracegen as tg
from vp.common import SCRATCH, Outcome, Violation, crash_violation
from vp.model import MTree

PROPERTY = "C16"
LEVEL = "exploration"
RULE = (
    "Hypothesis draws a base clone tree (2-7 data points) and 3-9 variants by 0-3 local edits each (move a point to the "
    "parent/child/sibling clone, swap a clone's data with its child's, re-attach to grandparent/root, merge, split), or a "
    "structured swap/sibling family over disjoint pairs; 1-3 chains; threshold; weighting mode; scores. Non-trivial: the "
    "expected family F contains a nested pair. Distinct: hash of the trace description."
)
ASSUMPTIONS = ["support values within 1e-6 of the threshold are avoided by nudging the threshold (counted)"]

EDITS = ("move_up", "move_down", "move_sib", "swap", "reattach_up", "reattach_root", "merge", "split")


def apply_edit(mt: MTree, op, a, b):
    """local edit on the model; returns a new MTree (or the same if not applicable). Clones stay non-empty."""
    blocks = [list(x) for x in mt.blocks]
    parent = list(mt.parent)
    k = len(blocks)
    if k == 0:
        return mt
    i = a % k
    kids = [c for c in range(k) if parent[c] == i]
    sibs = [c for c in range(k) if parent[c] == parent[i] and c != i]
    if op == "move_up" and parent[i] != -1 and len(blocks[i]) > 1:
        blocks[parent[i]].append(blocks[i].pop(b % len(blocks[i])))
    elif op == "move_down" and kids and len(blocks[i]) > 1:
        blocks[kids[b % len(kids)]].append(blocks[i].pop(0))
    elif op == "move_sib" and sibs and len(blocks[i]) > 1:
        blocks[sibs[b % len(sibs)]].append(blocks[i].pop(0))
    elif op == "swap" and kids:
        c = kids[b % len(kids)]
        blocks[i], blocks[c] = blocks[c], blocks[i]
    elif op == "reattach_up" and parent[i] != -1:
        parent[i] = parent[parent[i]]
    elif op == "reattach_root" and parent[i] != -1:
        parent[i] = -1
    elif op == "merge" and parent[i] != -1:
        p = parent[i]
        blocks[p].extend(blocks[i])
        for c in kids:
            parent[c] = p
        del blocks[i]
        del parent[i]
        parent = [(x - 1 if x > i else x) for x in parent]
    elif op == "split" and len(blocks[i]) > 1:
        moved = [blocks[i].pop()]
        blocks.append(moved)
        parent.append(i if b % 2 else parent[i])
    else:
        return mt
    return MTree(blocks, parent, mt.outliers)


@st.composite
def _edit_family(draw, n):
    base = MTree.from_json(draw(gen.st_mtree(indices=list(range(n)), outliers=draw(st.booleans()), max_outliers=2, min_clones=1)))
    pool = []
    for _ in range(draw(st.integers(3, 9))):
        t = base
        for _ in range(draw(st.integers(0, 3))):
            t = apply_edit(t, draw(st.sampled_from(EDITS)), draw(st.integers(0, 50)), draw(st.integers(0, 50)))
        pool.append(t.to_json())
    return pool


@st.composite
def _pattern_family(draw, n):
    """pairs (a,b): T1 has a above b, T2 has b above a, T3 has a,b as siblings -> {a},{b},{a,b} all have support 2/3"""
    idx = list(draw(st.permutations(list(range(n)))))
    n_pairs = draw(st.integers(1, n // 2))
    pairs = [(idx[2 * j], idx[2 * j + 1]) for j in range(n_pairs)]
    rest = idx[2 * n_pairs :]
    under = draw(st.booleans()) and len(rest) > 0  # hang the pairs under a common clone holding the rest
    trees = []
    for variant in range(3):
        blocks, parent = [], []
        top = -1
        if rest:
            blocks.append(list(rest))
            parent.append(-1)
            top = 0 if under else -1
        for (a, b) in pairs:
            if variant == 0:
                blocks.append([a]); parent.append(top); blocks.append([b]); parent.append(len(blocks) - 2)
            elif variant == 1:
                blocks.append([b]); parent.append(top); blocks.append([a]); parent.append(len(blocks) - 2)
            else:
                blocks.append([a]); parent.append(top); blocks.append([b]); parent.append(top)
        trees.append(MTree(blocks, parent).to_json())
    extra = draw(st.integers(0, 2))
    pool = trees * 1
    for _ in range(extra):
        pool.append(trees[draw(st.integers(0, 2))])
    return pool


@st.composite
def _case(draw):
    ds = draw(tg.st_dataset(n_min=2, n_max=7, clustered=draw(st.sampled_from([False, False, True]))))
    n = ds["n"]
    if draw(st.sampled_from([False, False, True])):
        pool = draw(_pattern_family(n))
        kind = "pattern"
    else:
        pool = draw(_edit_family(n))
        kind = "edits"
    for _ in range(draw(st.sampled_from([0, 0, 1, 2]))):
        # a sampled tree in which every data point is an outlier contributes no clade but still counts as a tree
        pool.append(dict(blocks=[], parent=[], outliers=list(range(n))))
    # every pool tree appears at least once; chains split the list
    n_chains = draw(st.integers(1, 3))
    chain_nums = [0] + draw(st.lists(st.integers(1, 9), min_size=n_chains - 1, max_size=n_chains - 1, unique=True))
    ties = draw(st.booleans())
    chains = [dict(chain_num=c, entries=[]) for c in chain_nums]
    for j in range(len(pool)):
        chains[draw(st.integers(0, n_chains - 1)) if j >= n_chains else j % n_chains]["entries"].append(
            dict(tree=j, rep=draw(gen.st_repr()), lp=float(draw(st.sampled_from([-10.0, -10.5, -9.0])) if ties else draw(st.floats(-14.0, -8.0))), alpha=1.0)
        )
    chains = [c for c in chains if c["entries"] or c["chain_num"] == 0]
    if not chains[0]["entries"]:
        chains[0]["entries"].append(dict(tree=0, rep=dict(sib=[0], style="post", relabel=False), lp=-10.0, alpha=1.0))
    order = list(draw(st.permutations(list(range(len(chains))))))
    return dict(ds=ds, pool=pool, ent=dict(chains=chains, order=order), thr=draw(st.sampled_from([0.5, 0.6, 0.66, 0.75, 0.9, 1.0]) | st.floats(0.5, 1.0)), weighted=draw(st.booleans()), kind=kind)


def strategy(ctx):
    return _case()


def budget(ctx):
    return dict(max_examples=ctx.pick(800, 40000), shards=16)


def warmup():
    from vp.checks import c11

    c11.warmup()


def supports(flat, weighted):
    """flat: list of (chain, pos, MTree, lp) -> dict clade -> support"""
    sup = {}
    if not weighted:
        for _, _, mt, _ in flat:
            for c in mt.clades():
                sup[c] = sup.get(c, 0.0) + 1.0 / len(flat)
        return sup
    groups = {}
    for _, _, mt, lp in flat:
        g = groups.setdefault(mt.key(), dict(mt=mt, n=0, best=-math.inf))
        g["n"] += 1
        g["best"] = max(g["best"], lp)
    logw = {k: g["best"] + math.log(g["n"]) for k, g in groups.items()}
    m = max(logw.values())
    tot = sum(math.exp(v - m) for v in logw.values())
    for k, g in groups.items():
        w = math.exp(logw[k] - m) / tot
        for c in g["mt"].clades():
            sup[c] = sup.get(c, 0.0) + w
    return sup


def evaluate(case):
    os.makedirs(SCRATCH, exist_ok=True)
    with tempfile.TemporaryDirectory(dir=SCRATCH) as td:
        return _evaluate(case, td)


def _evaluate(case, td):
    trace = os.path.join(td, "trace.pkl.gz")
    built = tg.write_trace(case["ds"], case["pool"], case["ent"], trace, td)
    sup = supports(built.flat, case["weighted"])
    thr = float(case["thr"])
    nudged = 0
    while any(abs(s - thr) < 1e-6 for s in sup.values()):
        thr = thr + 3e-6 if thr + 3e-6 <= 1.0 else thr - 3e-6 * (nudged + 2)
        nudged += 1
        if nudged > 20 or thr < 0.5:
            return Outcome(nontrivial=False, classes=("threshold-cannot-be-separated",))
    F = {c for c, s in sup.items() if s > thr}
    tags = dict(weighted=case["weighted"], kind=case["kind"], clustered=case["ds"]["clustered"])
    t, nw = os.path.join(td, "cons.tsv"), os.path.join(td, "cons.nwk")
    args = ["consensus", "-i", trace, "-o", t, "-t", nw, "--consensus-threshold", repr(thr), "-w", "joint-likelihood" if case["weighted"] else "counts"]
    ok, exc = tg.run_cli(args)
    if not ok:
        if exc is not None and not isinstance(exc, SystemExit):
            raise crash_violation("consensus", exc, tags)
        raise Violation("consensus/exit", "consensus command exited with an error", tags)
    try:
        with open(nw) as f:
            d = tg.decode(tg.read_table(t), f.read(), built)
    except ValueError as e:
        raise Violation("consensus/undecodable", "consensus output cannot be decoded: %s" % e, tags)
    got = list(d.mtree.clade_list())
    gotset = set(got)
    covered = frozenset().union(*F) if F else frozenset()
    empties = [i for i in range(d.mtree.k) if len(d.mtree.blocks[i]) == 0]
    n_union = sum(1 for c in F if any(x < c for x in F) and frozenset().union(*[x for x in F if x < c]) == c)
    tags["union_clades"] = n_union
    if len(got) != len(gotset) or gotset != F:
        lost = sorted(sorted(c) for c in F - gotset)
        invented = sorted(sorted(c) for c in gotset - F)
        raise Violation(
            "consensus/clades",
            "consensus tree clades differ from the majority clades at threshold %r (%s): missing %r, not supported %r; %d retained clades are exact unions of retained sub-clades"
            % (thr, "weighted" if case["weighted"] else "counts", lost, invented, n_union),
            tags,
            dict(expected=sorted(sorted(c) for c in F), got=sorted(sorted(c) for c in gotset)),
        )
    outl = set(d.mtree.outliers)
    want_out = set(range(case["ds"]["n"])) - set(covered)
    if outl != want_out:
        raise Violation("consensus/uncovered", "data points %r are not covered by a retained clade but %r are reported with clone -1" % (sorted(want_out), sorted(outl)), tags)
    nested = any(a < b for a in F for b in F)
    classes = ["kind:" + case["kind"], "weighted" if case["weighted"] else "counts", "union-clades=%d" % min(n_union, 2)]
    if not F:
        classes.append("F-empty")
    if empties:
        classes.append("empty-clone-in-output")
    if nudged:
        classes.append("threshold-nudged")
    if want_out:
        classes.append("uncovered-points")
    if any(mt.k == 0 for _, _, mt, _ in built.flat):
        classes.append("trace-holds-clone-less-tree")
    return Outcome(nontrivial=nested, classes=tuple(classes), info=dict(n=case["ds"]["n"], trees=len(built.flat), thr=thr, weighted=case["weighted"], F=sorted(sorted(c) for c in F)), weight=len(built.flat))
