"""Exact transition matrices of phyclone's MCMC moves via EnumRNG, and the pi K = pi oracle (C01, C04)."""
from __future__ import annotations

import math

import numpy as np

from vp import gen
from vp.common import HarnessError, Violation, crash_violation
from vp.enumrng import EnumRNG, LeafBudgetExceeded, explore
from vp.model import all_mtrees, to_tree_grid, tree_key

PROPOSALS = {"bootstrap": "bootstrap", "semi": "semi-adapted", "fully": "fully-adapted"}


class Inconclusive(Exception):
    pass


def kernel_class(proposal):
    from phyclone.smc.kernels import BootstrapKernel, FullyAdaptedKernel, SemiAdaptedKernel

    return {"bootstrap": BootstrapKernel, "fully": FullyAdaptedKernel, "semi": SemiAdaptedKernel}[proposal]


def make_world(case):
    """data, tree_dist, rng, kernel for a C01/C04 style case"""
    from phyclone.smc.utils import RootPermutationDistribution
    from phyclone.tree import FSCRPDistribution, TreeJointDistribution

    gen.clear_caches()
    n, dims, G = case["n"], case["dims"], case["G"]
    vs = case["values"]
    values = gen.make_values(n, dims, G, vs["seed"], vs["regime"], vs["scale"])
    op = float(case.get("outlier_prior", 0.0))
    data = gen.make_datapoints(values, outlier_prior=op)
    tree_dist = TreeJointDistribution(FSCRPDistribution(float(case["alpha"])))
    rng = EnumRNG()
    wiring = case.get("wiring", "library")
    if wiring == "run":
        from phyclone.run import setup_kernel, setup_samplers

        kernel = setup_kernel(op, PROPOSALS[case["proposal"]], rng, tree_dist)
        samplers = setup_samplers(kernel, case.get("N", 2), op, case.get("thr", 0.5), rng, tree_dist)
    else:
        opp = 0.1 if op > 0 else 0.0
        opp = case.get("outlier_proposal_prob", opp)
        kernel = kernel_class(case["proposal"])(tree_dist, rng, outlier_proposal_prob=opp, perm_dist=RootPermutationDistribution())
        samplers = None
    return dict(data=data, values=values, tree_dist=tree_dist, rng=rng, kernel=kernel, samplers=samplers, grid=(dims, G))


def state_space(world, n, outliers_allowed, sib=None):
    mts = all_mtrees(range(n), outliers_allowed)
    keys = list(mts)
    trees = [to_tree_grid(mts[k], world["data"], world["grid"], sibling_perm=sib) for k in keys]
    for k, t in zip(keys, trees):
        if tree_key(t) != k:
            raise HarnessError("state-space builder: real tree key differs from model key for %r" % (mts[k],))
    return keys, [mts[k] for k in keys], trees


def target(world, trees):
    lp = np.array([float(world["tree_dist"].log_p_one(t)) for t in trees])
    if not np.all(np.isfinite(lp)):
        raise Inconclusive("non-finite log_p_one in state space")
    pi = np.exp(lp - lp.max())
    return pi / pi.sum(), lp


def transition_matrix(move, keys, trees, rng, component, tags, leaf_budget, rows=None):
    """move(tree_copy) -> tree.  Returns K (len(keys) x len(keys)), leaves."""
    idx = {k: i for i, k in enumerate(keys)}
    K = np.zeros((len(keys), len(keys)))
    leaves = 0
    todo = range(len(keys)) if rows is None else rows
    for i in todo:
        t = trees[i]

        def fn():
            return tree_key(move(t.copy()))

        try:
            res = explore(fn, rng, max_leaves=max(1, leaf_budget - leaves))
        except LeafBudgetExceeded:
            raise Inconclusive("leaf budget")
        except (Violation, HarnessError):
            raise
        except Exception as e:
            raise crash_violation(component, e, tags)
        leaves += len(res)
        for p, o in res:
            j = idx.get(o)
            if j is None:
                raise Violation(component + "/outside-support", "move returned a tree that is not a clone tree over the input data: %r" % (o,), tags)
            K[i, j] += p
        rs = K[i].sum()
        if abs(rs - 1) > 1e-9:
            raise HarnessError("transition row sums to %r (EnumRNG bookkeeping broken?)" % rs)
    return K, leaves


def check_invariance(pi, K, keys, mts, component, tags, tol=1e-9):
    out = pi @ K
    err = np.abs(out - pi)
    j = int(err.argmax())
    if err[j] > tol:
        t = dict(tags)
        t["residual"] = float(err[j])
        raise Violation(
            component,
            "pi K != pi: max residual %.3e at tree %r (pi=%.4g, (pi K)=%.4g), %d states" % (err[j], mts[j], pi[j], out[j], len(keys)),
            t,
            dict(worst_tree=mts[j].to_json(), residual=float(err[j])),
        )
    return float(err.max())


class ResampleMonitor:
    """Harness-side wrapper around ConditionalSMCSampler._resample_swarm: counts resampling steps and neutralises
    floating-point ties of the relative ESS with the threshold.  `relative_ess <= threshold` is a discontinuity: when a
    swarm's relative ESS equals the threshold in exact arithmetic (weights (2/3, 1/3), N = 2, threshold 0.9; or uniform
    weights with threshold 1.0) rounding decides, and mathematically identical swarms reached along different paths can
    get different decisions - a finite-precision artefact at a measure-zero boundary that shows up as a 1e-5 residual,
    not a defect of the sampler.  For a swarm within 1e-9 of the threshold the wrapper makes the comparison see
    threshold + 2e-9, i.e. every near-tie is decided the way exact arithmetic decides an exact tie (resample).  The rule
    "resample iff rel. ESS <= threshold + 1e-9" is still a deterministic function of the weights, so the kernel checked
    is a valid adaptive-resampling kernel that coincides with the code's outside the tie band."""

    def __init__(self):
        from phyclone.smc.samplers.conditional import ConditionalSMCSampler

        self.cls = ConditionalSMCSampler
        self.count = 0
        self.ties = 0
        self.tie_decisions = set()

    def __enter__(self):
        orig = self.cls._resample_swarm
        me = self

        def wrapped(s):
            before = s.swarm
            try:
                ress = float(before.relative_ess)
            except Exception:
                ress = None
            thr = s.resample_threshold
            tie = ress is not None and abs(ress - thr) < 1e-9 and s.iteration < s.num_iterations
            if tie:
                me.ties += 1
                s.resample_threshold = thr + 2e-9
            try:
                r = orig(s)
            finally:
                s.resample_threshold = thr
            if s.swarm is not before:
                me.count += 1
            return r

        self.orig = orig
        self.cls._resample_swarm = wrapped
        return self

    def __exit__(self, *a):
        self.cls._resample_swarm = self.orig

    def check(self):
        return None


def warm_history(world, case, moves, trees, leaf_budget=20000):
    """Pre-history on the SAME objects (tree_dist, kernel, samplers, caches): run the moves under a previous
    concentration value, then set the case's value in place WITHOUT clearing any cache - what a caller does who updates
    `tree_dist.prior.alpha` between sweeps.  State that is keyed incompletely (stale memo entries) then shows up as a
    broken invariance under the new value."""
    prev = case.get("prev_alpha")
    if prev is None:
        return 0
    td = world["tree_dist"]
    cur = td.prior.alpha
    td.prior.alpha = float(prev)
    leaves = 0
    rng = world["rng"]
    try:
        for t in trees:
            for mv in moves:
                try:
                    res = explore(lambda: tree_key(mv(t.copy())), rng, max_leaves=max(1, leaf_budget - leaves))
                    leaves += len(res)
                except LeafBudgetExceeded:
                    leaves = leaf_budget
                    break
            if leaves >= leaf_budget:
                break
    finally:
        td.prior.alpha = cur
    return leaves
