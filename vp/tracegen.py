"""Synthetic trace files (C11, C12, C16, C20): generators, writer, command runners and output decoders."""
from __future__ import annotations

import contextlib
import csv
import io
import os
import tarfile

import numpy as np
from hypothesis import strategies as st

from vp import gen
from vp.common import HarnessError
from vp.model import MTree

# ---------------------------------------------------------------------------
# strategies


@st.composite
def st_dataset(draw, n_min=1, n_max=6, clustered=None):
    n = draw(st.integers(n_min, n_max))
    if clustered is None:
        clustered = draw(st.sampled_from([False, True, False]))
    sizes = [draw(st.integers(1, 3)) for _ in range(n)] if clustered else None
    return dict(
        n=n,
        dims=draw(st.sampled_from([1, 2, 3])),
        G=draw(st.sampled_from([5, 3, 8, 11])),
        values=draw(gen.st_values_spec(regimes=("moderate", "ties", "spiky", "flat"))),
        clustered=bool(clustered),
        sizes=sizes,
        cluster_base=draw(st.sampled_from([0, 1, 7])) if clustered else 0,
    )


@st.composite
def st_entries(draw, pool_size, max_chains=4, max_entries=8, lp_ties=None):
    n_chains = draw(st.integers(1, max_chains))
    chain_nums = [0] + draw(st.lists(st.integers(1, 9), min_size=n_chains - 1, max_size=n_chains - 1, unique=True))
    if lp_ties is None:
        lp_ties = draw(st.booleans())
    chains = []
    for c in chain_nums:
        ents = []
        for _ in range(draw(st.integers(1, max_entries))):
            ents.append(
                dict(
                    tree=draw(st.integers(0, pool_size - 1)),
                    rep=draw(gen.st_repr()),
                    lp=float(draw(st.sampled_from([-10.0, -12.5, -10.0, -3.25, -10.0001, -10.0004, -9.9997])) if lp_ties else draw(st.floats(-60.0, -1.0, allow_nan=False))),
                    alpha=draw(st.sampled_from([1.0, 0.5, 2.0])),
                )
            )
        chains.append(dict(chain_num=c, entries=ents))
    order = draw(st.permutations(list(range(len(chains)))))
    # recorded iteration numbers as a run writes them: the state after burn-in as 0, then 0, thin, 2*thin, ...
    return dict(chains=chains, order=list(order), thin=draw(st.sampled_from([1, 3, 2, 5])))


# ---------------------------------------------------------------------------
# building


class Built:
    pass


def make_dataset(ds):
    """returns (data list idx-ordered, samples, mutation names per data idx, clusters rows or None, values)"""
    n = ds["n"]
    vs = ds["values"]
    values = gen.make_values(n, ds["dims"], ds["G"], vs["seed"], vs["regime"], vs["scale"])
    from phyclone.data.base import DataPoint

    data = []
    muts = {}
    cluster_rows = None
    if ds["clustered"]:
        cluster_rows = []
        for i in range(n):
            cid = ds["cluster_base"] + i
            names = ["mut%d_%d" % (i, j) for j in range(ds["sizes"][i])]
            muts[i] = names
            for nm in names:
                cluster_rows.append((nm, cid))
            data.append(DataPoint(i, values[i].copy(), name=str(cid)))
    else:
        for i in range(n):
            muts[i] = ["m%02d" % i]
            data.append(DataPoint(i, values[i].copy(), name="m%02d" % i))
    samples = ["S%d" % s for s in range(ds["dims"])]
    return data, samples, muts, cluster_rows, values


def write_trace(ds, pool, ent, path, scratch_dir):
    """pool: list of MTree JSON; ent: st_entries output.  Returns Built with the expected bookkeeping."""
    from phyclone.process_trace import create_main_run_output

    data, samples, muts, cluster_rows, values = make_dataset(ds)
    dd = {dp.idx: dp for dp in data}
    grid = (ds["dims"], ds["G"])
    mts = [MTree.from_json(p) for p in pool]
    results = {}
    flat = []  # (chain_num, position, MTree, lp)
    chains = [ent["chains"][i] for i in ent["order"]]
    import pickle

    for ch in chains:
        trace = []
        # every chain runs in its own worker process and its result comes back pickled on its own: the chains of a real
        # trace never share DataPoint objects
        cdata = pickle.loads(pickle.dumps(data))
        dd = {dp.idx: dp for dp in cdata}
        for pos, e in enumerate(ch["entries"]):
            mt = mts[e["tree"]]
            rep = dict(e["rep"])
            if rep.get("style") == "graft" and any(len(b) == 0 for b in mt.blocks):
                rep["style"] = "post"
            t = gen.build_repr(mt, dd, grid, rep)
            it = pos if ent.get("thin") is None else max(0, pos - 1) * ent["thin"]
            trace.append({"iter": it, "time": 0.0, "alpha": e["alpha"], "log_p_one": e["lp"], "tree": t.to_dict()})
            flat.append((ch["chain_num"], pos, mt, e["lp"]))
        results[ch["chain_num"]] = {"data": cdata, "samples": samples, "trace": trace, "chain_num": ch["chain_num"]}
    cluster_file = None
    if cluster_rows is not None:
        cluster_file = os.path.join(scratch_dir, "clusters.tsv")
        with open(cluster_file, "w") as f:
            f.write("mutation_id\tcluster_id\n")
            for nm, cid in cluster_rows:
                f.write("%s\t%d\n" % (nm, cid))
    with contextlib.redirect_stdout(io.StringIO()):
        create_main_run_output(cluster_file, path, results)
    b = Built()
    b.data, b.samples, b.muts, b.cluster_rows, b.values = data, samples, muts, cluster_rows, values
    b.flat = flat
    b.grid = grid
    b.mut_to_idx = {nm: i for i, names in muts.items() for nm in names}
    b.all_mutations = sorted(b.mut_to_idx)
    return b


# ---------------------------------------------------------------------------
# running commands


def run_cli(args):
    """invoke phyclone.cli.main in-process; returns (ok, exception-or-None)"""
    from click.testing import CliRunner

    from phyclone.cli import main

    res = CliRunner().invoke(main, args, catch_exceptions=True)
    ok = res.exit_code == 0 and res.exception is None
    return ok, res.exception


# ---------------------------------------------------------------------------
# decoding outputs


def parse_newick(s):
    """'((3)1,2)root;' -> (root_label, children dict label -> [labels]).  Labels are strings."""
    s = s.strip()
    if not s.endswith(";"):
        raise ValueError("newick does not end with ';': %r" % s)
    s = s[:-1]
    pos = [0]
    children = {}

    def node():
        kids = []
        if pos[0] < len(s) and s[pos[0]] == "(":
            pos[0] += 1
            while True:
                kids.append(node())
                if s[pos[0]] == ",":
                    pos[0] += 1
                    continue
                if s[pos[0]] == ")":
                    pos[0] += 1
                    break
                raise ValueError("bad newick at %d in %r" % (pos[0], s))
        j = pos[0]
        while j < len(s) and s[j] not in ",()":
            j += 1
        label = s[pos[0] : j]
        pos[0] = j
        if label in children:
            raise ValueError("duplicate label %r in newick" % label)
        children[label] = kids
        return label

    root = node()
    if pos[0] != len(s):
        raise ValueError("trailing characters in newick %r" % s)
    return root, children


def read_table(path):
    with open(path, newline="") as f:
        return list(csv.DictReader(f, delimiter="\t"))


class Decoded:
    pass


def decode(table_rows, newick, built):
    """Rebuild the tree (as MTree over data idx, with names) from a results table + Newick string.
    Raises ValueError with a description when the table is not consistent enough to decode."""
    root, children = parse_newick(newick)
    labels = [l for l in children if l != root]
    d = Decoded()
    d.root = root
    d.children = children
    d.labels = labels
    d.rows = table_rows
    # mutation -> clone
    clone_of_mut = {}
    for r in table_rows:
        m = r["mutation_id"]
        c = r["clone_id"]
        if m in clone_of_mut and clone_of_mut[m] != c:
            raise ValueError("mutation %s listed under two clones (%s, %s)" % (m, clone_of_mut[m], c))
        clone_of_mut[m] = c
    d.clone_of_mut = clone_of_mut
    # data idx -> clone (all mutations of a cluster must share one clone)
    clone_of_idx = {}
    for i, names in built.muts.items():
        cs = {clone_of_mut.get(nm) for nm in names}
        if len(cs) != 1 or None in cs:
            raise ValueError("mutations %r of data point %d are assigned to clones %r" % (names, i, cs))
        clone_of_idx[i] = cs.pop()
    d.clone_of_idx = clone_of_idx
    blocks = []
    index = {l: k for k, l in enumerate(labels)}
    parent = [-1] * len(labels)
    for p, kids in children.items():
        for c in kids:
            parent[index[c]] = -1 if p == root else index[p]
    for l in labels:
        blocks.append(sorted(i for i, c in clone_of_idx.items() if c == l))
    outl = sorted(i for i, c in clone_of_idx.items() if c == "-1")
    stray = sorted(i for i, c in clone_of_idx.items() if c != "-1" and c not in index)
    if stray:
        raise ValueError("data points %r assigned to clone ids %r that are not nodes of the Newick tree %r" % (stray, sorted({clone_of_idx[i] for i in stray}), newick))
    d.mtree = MTree(blocks, parent, outl)
    return d


def archive_members(path):
    out = {}
    with tarfile.open(path, "r:gz") as tf:
        for m in tf.getmembers():
            if m.isfile():
                out[m.name] = tf.extractfile(m).read()
    return out
