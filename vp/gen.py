"""E3: Hypothesis strategies producing JSON-able case fragments, and deterministic builders.

Numeric arrays are derived deterministically from a drawn (seed, regime, scale) triple, so a
case stays small, JSON-able and replayable; every random choice is a Hypothesis draw.
"""
from __future__ import annotations

import itertools
import math

import numpy as np
from hypothesis import strategies as st

from vp.model import MTree

REGIMES = ("flat", "moderate", "spiky", "ties", "wide", "dimshift")

_uid = itertools.count()


def make_values(n, dims, G, seed, regime="moderate", scale=1.5):
    """dict idx -> (dims, G) float array of log-likelihood values"""
    r = np.random.default_rng(int(seed))
    out = {}
    for i in range(n):
        if regime == "flat":
            v = np.zeros((dims, G))
        elif regime == "moderate":
            v = r.normal(0, scale, size=(dims, G))
        elif regime == "spiky":
            v = r.normal(0, 0.3, size=(dims, G))
            for d in range(dims):
                v[d, r.integers(0, G)] += scale * 8
        elif regime == "ties":
            v = r.integers(-2, 3, size=(dims, G)).astype(float)
        elif regime == "wide":
            v = r.normal(0, scale * 40, size=(dims, G))
        elif regime == "dimshift":
            # samples sequenced at very different depths: whole rows differ by hundreds of log units
            v = r.normal(0, scale, size=(dims, G))
            for d in range(1, dims):
                v[d] -= float(r.integers(300, 900)) * d
        else:
            raise ValueError(regime)
        out[i] = np.ascontiguousarray(v, dtype=np.float64)
    return out


def make_datapoints(values, outlier_prior=0.0, prior_mask=None, sizes=None):
    """DataPoints with unique names (eq/hash is by name and proposal caches key on it)."""
    from phyclone.data.base import DataPoint

    uid = next(_uid)
    data = {}
    for i, v in values.items():
        p = outlier_prior if (prior_mask is None or prior_mask[i % len(prior_mask)]) else 0.0
        size = 1 if sizes is None else sizes[i % len(sizes)]
        if p == 0:
            op, opn = 0, 0.0
        else:
            with np.errstate(divide="ignore"):
                op, opn = float(np.log(p) * size), float(np.log1p(-p) * size)  # p = 1 -> -inf, as the loader computes it
        data[i] = DataPoint(i, v.copy(), name="c%d_%d" % (uid, i), outlier_prob=op, outlier_prob_not=opn)
    return data


def outlier_terms(data):
    return {i: (dp.outlier_prob, dp.outlier_prob_not) for i, dp in data.items()}


def clear_caches():
    from phyclone.tree.utils import _convolve_two_children, compute_log_S
    from phyclone.utils.dev import clear_proposal_dist_caches

    clear_proposal_dist_caches()
    compute_log_S.cache_clear()
    _convolve_two_children.cache_clear()


# ---------------------------------------------------------------------------
# strategies


@st.composite
def st_values_spec(draw, regimes=REGIMES, max_scale=3.0):
    return dict(
        seed=draw(st.integers(0, 2 ** 31 - 1)),
        regime=draw(st.sampled_from(list(regimes))),
        scale=draw(st.sampled_from([0.5, 1.0, 1.5, max_scale])),
    )


@st.composite
def st_mtree(draw, n_min=1, n_max=5, outliers=False, max_outliers=None, empty_blocks=False, min_clones=0, indices=None, n_roots=None):
    """MTree JSON over data indices 0..n-1 (or `indices`), constructed (never rejected)."""
    if indices is None:
        n = draw(st.integers(n_min, n_max))
        indices = list(range(n))
    else:
        indices = list(indices)
        n = len(indices)
    out = []
    rest = list(indices)
    if outliers and n > 0:
        mo = n if max_outliers is None else min(n, max_outliers)
        # number of outliers first (booleans per point make all-outlier trees dominate), then which points
        n_out = min(mo, draw(st.sampled_from([0, 1, 0, 2, 3, n, 1])))
        if min_clones > 0:
            n_out = min(n_out, n - 1)
        out = sorted(draw(st.permutations(indices))[:n_out]) if n_out else []
        rest = [i for i in indices if i not in out]
    # restricted-growth string -> set partition
    blocks = []
    # partition style: Hypothesis favours small integers, i.e. few big blocks; many-clone trees must not be rare
    part = draw(st.sampled_from(["random", "singletons", "random", "mostly-new"])) if len(rest) > 2 else "random"
    for i in rest:
        if n_roots is not None and len(blocks) < n_roots:
            blocks.append([i])
            continue
        if part == "singletons":
            b = len(blocks)
        elif part == "mostly-new":
            b = len(blocks) - draw(st.integers(0, 1)) if blocks else 0
        else:
            b = draw(st.integers(0, len(blocks)))
        if b == len(blocks):
            blocks.append([i])
        else:
            blocks[b].append(i)
    if empty_blocks and blocks:
        n_empty = draw(st.integers(0, 2))
        for _ in range(n_empty):
            blocks.insert(draw(st.integers(0, len(blocks))), [])
    k = len(blocks)
    # any rooted forest: process blocks in a drawn order, parent among earlier ones or -1
    order = draw(st.permutations(list(range(k)))) if k > 1 else list(range(k))
    parent = [-1] * k
    # shape class: uniform parent choice makes deep chains rare (Hypothesis also favours small integers), so the
    # attachment rule is itself drawn: random / chain (attach to the previous clone) / caterpillar (one of the last two)
    # / bushy (attach near the first clones)
    shape = draw(st.sampled_from(["random", "chain", "caterpillar", "random", "bushy"])) if k > 2 else "random"
    for j, b in enumerate(order):
        lo = 0 if (n_roots is not None and j >= n_roots) else -1
        if n_roots is not None and j < n_roots:
            p = -1
        elif shape == "chain" and j >= 1:
            p = j - 1 if draw(st.integers(0, 5)) > 0 else draw(st.integers(lo, j - 1))
        elif shape == "caterpillar" and j >= 2:
            p = j - 1 - draw(st.integers(0, 1))
        elif shape == "bushy" and j >= 1:
            p = draw(st.integers(lo, min(1, j - 1)))
        else:
            p = draw(st.integers(lo, j - 1))
        parent[b] = -1 if p < 0 else order[p]
    mt = MTree(blocks, parent, out)
    if empty_blocks:
        # an empty clone must have >= 2 children to be distinguishable as a clade (consensus outputs); else fill is the
        # caller's business: we simply drop empty leaves / unary empties by merging with parent chain
        mt = _prune_degenerate_empty(mt)
    return mt.to_json()


def _prune_degenerate_empty(mt: MTree):
    blocks = [list(b) for b in mt.blocks]
    parent = list(mt.parent)
    changed = True
    while changed:
        changed = False
        for i in range(len(blocks)):
            if blocks[i] is None or len(blocks[i]) > 0:
                continue
            ch = [c for c in range(len(blocks)) if blocks[c] is not None and parent[c] == i]
            if len(ch) < 2:
                for c in ch:
                    parent[c] = parent[i]
                blocks[i] = None
                changed = True
    keep = [i for i in range(len(blocks)) if blocks[i] is not None]
    remap = {o: n for n, o in enumerate(keep)}
    return MTree([blocks[i] for i in keep], [(-1 if parent[i] == -1 else remap[parent[i]]) for i in keep], mt.outliers)


@st.composite
def st_repr(draw):
    """how to build a real tree from the model: sibling permutation keys + build style + relabel flag"""
    return dict(
        sib=draw(st.lists(st.integers(0, 7), min_size=1, max_size=6)),
        style=draw(st.sampled_from(["post", "smc", "graft", "roundtrip"])),
        relabel=draw(st.booleans()),
    )


def build_repr(mt: MTree, data, grid, rep):
    """Build the real tree for `mt` according to representation `rep` (same tree, different history/labels/order)."""
    from vp.model import to_tree_grid

    sib = rep.get("sib") or [0]
    style = rep.get("style", "post")
    if style in ("post", "roundtrip") or mt.k == 0:
        t = to_tree_grid(mt, data, grid, sibling_perm=sib)
        if style == "roundtrip":
            from phyclone.tree import Tree

            t = Tree.from_dict(t.to_dict())
    elif style == "smc":
        t = build_smc_style(mt, data, grid, sib)
    elif style == "graft":
        t = build_graft_style(mt, data, grid, sib)
    else:
        raise ValueError(style)
    if len(mt.outliers) >= 2 and sum(sib) % 2 == 1:
        # the outlier set has no order: re-insert the outliers in another order
        outs = list(t.outliers)
        for dp in outs:
            t.remove_data_point_from_outliers(dp)
        for dp in outs[::-1]:
            t.add_data_point_to_outliers(dp)
    if rep.get("relabel"):
        t.relabel_nodes()
    return t


def build_smc_style(mt: MTree, data, grid, sib):
    """Like the conditional SMC's constrained path: one data point at a time in a compatible order;
    a clone is created (with its children) when its first data point arrives."""
    from phyclone.tree import Tree

    t = Tree(grid)
    name = {}
    # order: post-order over clones (children fully before parents), rotated by sib for variety among roots
    post = mt.postorder()
    for i in post:
        pts = list(mt.blocks[i])
        if sib[0] % 2:
            pts = pts[::-1]
        t = t.copy()
        ch = [name[c] for c in mt.children(i)]
        if sib[-1] % 2:
            ch = ch[::-1]
        name[i] = t.create_root_node(children=ch, data=[])
        for d in pts:
            t.add_data_point_to_node(data[d], name[i])
    for o in mt.outliers:
        t.add_data_point_to_outliers(data[o])
    return t


def build_graft_style(mt: MTree, data, grid, sib):
    """Build every top-level subtree as its own tree and graft them under the root (relabels on clash)."""
    from phyclone.tree import Tree
    from vp.model import to_tree_grid

    t = Tree(grid)
    roots = mt.roots()
    if sib[0] % 2:
        roots = roots[::-1]
    for r in roots:
        nodes = [r] + mt.descendants(r)
        remap = {o: n for n, o in enumerate(nodes)}
        sub = MTree([mt.blocks[i] for i in nodes], [(-1 if i == r else remap[mt.parent[i]]) for i in nodes])
        st_ = to_tree_grid(sub, data, grid, sibling_perm=sib)
        t.add_subtree(st_, parent=None)
    for o in mt.outliers:
        t.add_data_point_to_outliers(data[o])
    t.update()
    return t


@st.composite
def st_with_empty_clones(draw, mt_json, max_insert=2):
    """insert empty clones above >= 2 siblings (what a consensus tree contains when a clade is the union of sub-clades)"""
    mt = MTree.from_json(mt_json)
    blocks = [list(b) for b in mt.blocks]
    parent = list(mt.parent)
    for _ in range(draw(st.integers(0, max_insert))):
        k = len(blocks)
        groups = [(p, [c for c in range(k) if parent[c] == p]) for p in range(-1, k)]
        groups = [(p, ch) for p, ch in groups if len(ch) >= 2]
        if not groups:
            break
        p, ch = groups[draw(st.integers(0, len(groups) - 1))]
        flags = draw(st.lists(st.booleans(), min_size=len(ch), max_size=len(ch)))
        sel = [c for c, f in zip(ch, flags) if f]
        if len(sel) < 2:
            sel = ch[:2]
        if len(sel) == len(ch) and p != -1 and len(blocks[p]) == 0:
            continue  # would duplicate the clade of an empty parent
        blocks.append([])
        parent.append(p)
        for c in sel:
            parent[c] = k
    return MTree(blocks, parent, mt.outliers).to_json()
