"""./check <ID> [--tier quick|thorough] [--replay FILE]

exit 0  property held on everything explored (known findings are printed, not failed)
exit 1  + `VIOLATION property=<id> replay=<path>` per root-cause bucket
exit 2  harness error (never a violation)
"""
from __future__ import annotations

import argparse
import glob
import importlib
import json
import os
import sys
import time
import traceback

from vp.common import (
    VERIF,
    Ctx,
    HarnessError,
    Stats,
    Violation,
    jsonable,
    load_known,
    match_known,
    run_sharded,
    safe_warmup,
    safe_evaluate,
    write_evidence,
)


def _replay_by_name(args):
    modname, case = args
    return _replay_case(importlib.import_module(modname), case)


def _replay_case(mod, case):
    try:
        safe_evaluate(mod, case)
    except Violation as v:
        return dict(component=v.component, message=v.message, tags=jsonable(v.tags), case=jsonable(case), detail=jsonable(v.detail))
    return None


def _save_replay(prop, idx, viol):
    d = os.path.join(VERIF, "replays", prop)
    os.makedirs(d, exist_ok=True)
    safe = "".join(c if c.isalnum() or c in "-_." else "_" for c in viol["component"])[:80]
    path = os.path.join(d, "%s.json" % safe)
    with open(path, "w") as f:
        json.dump(
            dict(property=prop, component=viol["component"], message=viol["message"], tags=viol["tags"], detail=viol.get("detail"), case=viol["case"]),
            f,
            indent=1,
            sort_keys=True,
        )
        f.write("\n")
    return path


def main(argv=None):
    ap = argparse.ArgumentParser()
    ap.add_argument("prop")
    ap.add_argument("--tier", default=os.environ.get("VERIF_TIER", "quick"), choices=["quick", "thorough"])
    ap.add_argument("--replay", default=None)
    ap.add_argument("--procs", type=int, default=int(os.environ.get("VERIF_PROCS", "16")))
    args = ap.parse_args(argv)
    prop = args.prop.upper()
    try:
        seed = int(os.environ.get("VERIF_SEED", "1") or "1")
    except ValueError:
        seed = 1
    ctx = Ctx(prop=prop, tier=args.tier, seed=seed, procs=args.procs)
    import phyclone

    want = os.path.realpath(os.environ.get("PHYCLONE_REPO", "/repo"))
    if not os.path.realpath(phyclone.__file__).startswith(want + os.sep):
        print("HARNESS-ERROR property=%s phyclone imported from %s, expected under %s" % (prop, phyclone.__file__, want))
        return 2
    t0 = time.time()
    try:
        mod = importlib.import_module("vp.checks.%s" % prop.lower())
    except Exception:
        traceback.print_exc()
        print("HARNESS-ERROR property=%s cannot import check" % prop)
        return 2

    try:
        if args.replay:
            with open(args.replay) as f:
                doc = json.load(f)
            case = doc["case"] if "case" in doc else doc
            safe_warmup(mod)
            viol = _replay_case(mod, case)
            if viol is None:
                print("REPLAY-OK property=%s %s" % (prop, args.replay))
                return 0
            print("replay: %s: %s" % (viol["component"], viol["message"]))
            print("VIOLATION property=%s replay=%s" % (prop, os.path.abspath(args.replay)))
            return 1

        stats = Stats()
        # 1. seconds-long regression tier: shrunk failures found during development
        safe_warmup(mod)
        reg = sorted(glob.glob(os.path.join(VERIF, "regress", prop, "*.json")))
        reg_cases = []
        for path in reg:
            with open(path) as f:
                reg_cases.append(json.load(f)["case"])
        from vp.common import pool_map

        for viol in pool_map(_replay_by_name, [(mod.__name__, c) for c in reg_cases], procs=ctx.procs):
            stats.count("regress_replayed")
            if viol is not None:
                stats.violations.append(viol)
        # 2. generated search
        b = mod.budget(ctx)
        if b.get("max_examples", 0) > 0:
            stats.merge(run_sharded(mod, ctx, b["max_examples"], b.get("shards", 1)))
        # 3. optional deterministic / enumerated sweeps
        if hasattr(mod, "extra"):
            mod.extra(ctx, stats)
    except HarnessError as e:
        print("HARNESS-ERROR property=%s %s" % (prop, e))
        return 2
    except Exception:
        traceback.print_exc()
        print("HARNESS-ERROR property=%s unexpected exception in harness" % prop)
        return 2

    # classify violations: known finding vs new
    known = load_known(prop)
    known_lines = []
    new = {}
    for v in stats.violations:
        e = match_known(known, v["component"], v["tags"])
        if e is not None:
            line = "KNOWN-FINDING: property=%s %s" % (prop, e["what"])
            if line not in known_lines:
                known_lines.append(line)
        else:
            new.setdefault(v["component"], v)
    for line in known_lines:
        print(line)
    rc = 0
    for i, (comp, v) in enumerate(sorted(new.items())):
        path = _save_replay(prop, i, v)
        print("violation: %s: %s" % (comp, v["message"]))
        print("VIOLATION property=%s replay=%s" % (prop, path))
        rc = 1
    wall = time.time() - t0
    if os.environ.get("VERIF_NOEVIDENCE") != "1":
        write_evidence(mod, ctx, stats, wall, len(new), known_lines)
    print(
        "%s tier=%s seed=%d evaluations=%d distinct_nontrivial=%d violations=%d known=%d wall=%.1fs"
        % (prop, ctx.tier, ctx.seed, stats.evaluations, len(stats.nontrivial_keys), len(new), len(known_lines), wall)
    )
    return rc


if __name__ == "__main__":
    sys.exit(main())
