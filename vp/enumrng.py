"""E1: a generator that enumerates every outcome of every draw, with its probability.

`explore(fn, rng)` re-runs fn depth-first over the decision tree (choice-prefix replay)
and returns [(probability, result)].  `rng.random()` returns a lazy uniform whose
comparison with a threshold splits its interval and branches with the conditional
probability, so chained `if u < a … elif u < b` on one draw is exact.
"""
import itertools
import math

import numpy as np


class LeafBudgetExceeded(Exception):
    pass


class _LazyU:
    __slots__ = ("rng", "lo", "hi")

    def __init__(self, rng):
        self.rng = rng
        self.lo = 0.0
        self.hi = 1.0

    def __lt__(self, x):
        x = float(x)
        if x <= self.lo:
            return False
        if x >= self.hi:
            return True
        p = (x - self.lo) / (self.hi - self.lo)
        k = self.rng._decide([p, 1 - p])
        if k == 0:
            self.hi = x
            return True
        self.lo = x
        return False

    def __ge__(self, x):
        return not self.__lt__(x)

    def __le__(self, x):
        return self.__lt__(x)

    def __gt__(self, x):
        return not self.__lt__(x)

    def __float__(self):
        raise TypeError("EnumRNG: lazy uniform used as a number; enumeration impossible")


class EnumRNG:
    """Duck-typed numpy Generator for the draw methods phyclone's samplers use."""

    def __init__(self):
        self.reset([])

    def reset(self, prefix):
        self.prefix = list(prefix)
        self.pos = 0
        self.prob = 1.0
        self.trace = []  # (choice index among positive-probability options, number of such options)

    def _decide(self, probs):
        opts = [i for i, p in enumerate(probs) if p > 0]
        if not opts:
            raise ValueError("EnumRNG: no outcome with positive probability")
        j = self.prefix[self.pos] if self.pos < len(self.prefix) else 0
        self.pos += 1
        self.trace.append((j, len(opts)))
        k = opts[j]
        self.prob *= probs[k]
        return k

    def random(self, size=None):
        assert size is None
        return _LazyU(self)

    def integers(self, low, high=None, size=None, endpoint=False):
        assert size is None
        if high is None:
            low, high = 0, low
        n = int(high) - int(low) + (1 if endpoint else 0)
        if n <= 0:
            raise ValueError("low >= high")
        return int(low) + self._decide([1.0 / n] * n)

    def choice(self, a, size=None, replace=True, p=None):
        if isinstance(a, (int, np.integer)):
            a = list(range(int(a)))
        a = list(a)
        if len(a) == 0 and (size is None or int(size) > 0):
            raise ValueError("a cannot be empty unless no samples are taken")
        if p is not None:
            p = [float(x) for x in p]
        if size is None:
            if p is None:
                return a[self._decide([1.0 / len(a)] * len(a))]
            return a[self._decide(p)]
        assert replace is False and p is None
        rem = list(a)
        out = []
        for _ in range(int(size)):
            k = self._decide([1.0 / len(rem)] * len(rem))
            out.append(rem.pop(k))
        if out:
            return np.asarray(out)
        return np.asarray(out, dtype=np.asarray(a).dtype if len(a) else float)

    def multinomial(self, n, pvals, size=None):
        assert size is None
        pvals = np.asarray(pvals, dtype=float)
        pvals = pvals / pvals.sum()
        K = len(pvals)
        counts = np.zeros(K, dtype=int)
        n = int(n)
        if n == 0:
            return counts
        if n == 1:
            counts[self._decide(list(pvals))] = 1
            return counts
        comps, probs = [], []
        for c in itertools.product(range(n + 1), repeat=K):
            if sum(c) != n:
                continue
            pr = float(math.factorial(n))
            for ci, pi in zip(c, pvals):
                if ci > 0:
                    pr *= (pi ** ci) / math.factorial(ci)
            comps.append(c)
            probs.append(pr)
        return np.array(comps[self._decide(probs)], dtype=int)

    def shuffle(self, x):
        items = list(x)
        out = []
        while items:
            uniq, cnt = [], []
            for it in items:
                for ui, u in enumerate(uniq):
                    if u is it or u == it:
                        cnt[ui] += 1
                        break
                else:
                    uniq.append(it)
                    cnt.append(1)
            tot = len(items)
            u = uniq[self._decide([c / tot for c in cnt])]
            for ii, it in enumerate(items):
                if it is u or it == u:
                    out.append(items.pop(ii))
                    break
        x[:] = out

    def permutation(self, x):
        x = list(range(x)) if isinstance(x, (int, np.integer)) else list(x)
        self.shuffle(x)
        return np.asarray(x)


def explore(fn, rng, max_leaves=10 ** 7):
    """fn() draws only through rng; returns [(prob, outcome)] over all leaves."""
    results = []
    stack = [[]]
    leaves = 0
    while stack:
        prefix = stack.pop()
        rng.reset(prefix)
        out = fn()
        leaves += 1
        if leaves > max_leaves:
            raise LeafBudgetExceeded(leaves)
        results.append((rng.prob, out))
        choices = [c for c, _ in rng.trace]
        for pos in range(len(prefix), len(rng.trace)):
            for alt in range(1, rng.trace[pos][1]):
                stack.append(choices[:pos] + [alt])
    return results
