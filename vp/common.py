"""Shared runner plumbing: contexts, violations, evidence, known findings, sharded Hypothesis driver.

Every check module exposes

    PROPERTY = "Cxx"
    LEVEL    = "exploration" | "fault_enumeration"
    RULE     = "<how cases are generated, what is non-trivial / distinct>"
    ASSUMPTIONS = [...]
    def strategy(ctx) -> hypothesis strategy producing a JSON-able *case* (dict)
    def evaluate(case) -> Outcome            (raises Violation on a property failure)
    def budget(ctx) -> dict(max_examples=…, shards=…)
    (optional) def extra(ctx, stats)         extra deterministic sweeps
    (optional) def shrink_candidates(case)   structural ddmin for expensive checks

A *case* is plain data, so the replay file is the case itself and `--replay`
re-evaluates it with no Hypothesis involvement.
"""
from __future__ import annotations

import hashlib
import json
import math
import os
import sys
import time
import traceback
import zlib
from dataclasses import dataclass, field

import numpy as np

VERIF = os.path.dirname(os.path.dirname(os.path.abspath(__file__)))
REPO = os.environ.get("PHYCLONE_REPO", "/repo")
SCRATCH = os.path.join(VERIF, ".scratch")


class Violation(Exception):
    """The property failed on a case. component/tags identify the root-cause bucket."""

    def __init__(self, component, message, tags=None, detail=None):
        super().__init__(message)
        self.component = component
        self.message = message
        self.tags = dict(tags or {})
        self.detail = detail or {}

    def bucket(self):
        return self.component


class HarnessError(Exception):
    """Oracle self-check failed or the harness is broken: exit 2, never a violation."""


@dataclass
class Outcome:
    nontrivial: bool = False
    classes: tuple = ()
    key: object = None  # canonical identity of the case for distinct counting (default: the case itself)
    info: dict | None = None  # small summary for samples
    weight: int = 1  # how many inner evaluations this case stands for (e.g. enumerated leaves)


@dataclass
class Ctx:
    prop: str
    tier: str
    seed: int
    procs: int = 16

    def pick(self, quick, thorough):
        return quick if self.tier == "quick" else thorough


@dataclass
class Stats:
    evaluations: int = 0
    inner: int = 0
    nontrivial_keys: set = field(default_factory=set)
    classes: dict = field(default_factory=dict)
    samples: list = field(default_factory=list)
    violations: list = field(default_factory=list)  # dicts: component, message, tags, case
    excluded: dict = field(default_factory=dict)  # bucket -> count of cases skipped after confirmation
    skipped: dict = field(default_factory=dict)  # inconclusive/other counters
    notes: list = field(default_factory=list)
    exhaustive: bool = False

    def merge(self, other: "Stats"):
        self.evaluations += other.evaluations
        self.inner += other.inner
        self.nontrivial_keys |= other.nontrivial_keys
        for k, v in other.classes.items():
            self.classes[k] = self.classes.get(k, 0) + v
        for s in other.samples:
            if len(self.samples) < 6:
                self.samples.append(s)
        self.violations.extend(other.violations)
        for k, v in other.excluded.items():
            self.excluded[k] = self.excluded.get(k, 0) + v
        for k, v in other.skipped.items():
            self.skipped[k] = self.skipped.get(k, 0) + v
        self.notes.extend(other.notes)

    def count(self, cls, n=1):
        self.classes[cls] = self.classes.get(cls, 0) + n

    def skip(self, why, n=1):
        self.skipped[why] = self.skipped.get(why, 0) + n


def jsonable(o):
    if isinstance(o, dict):
        return {str(k): jsonable(v) for k, v in o.items()}
    if isinstance(o, (list, tuple)):
        return [jsonable(v) for v in o]
    if isinstance(o, (set, frozenset)):
        return sorted((jsonable(v) for v in o), key=lambda x: json.dumps(x, sort_keys=True))
    if isinstance(o, np.ndarray):
        return jsonable(o.tolist())
    if isinstance(o, (np.integer,)):
        return int(o)
    if isinstance(o, (np.floating,)):
        return jsonable(float(o))
    if isinstance(o, float):
        if math.isnan(o):
            return "nan"
        if math.isinf(o):
            return "inf" if o > 0 else "-inf"
        return o
    if isinstance(o, (np.bool_,)):
        return bool(o)
    if isinstance(o, bytes):
        return o.hex()
    return o


def case_hash(obj):
    s = json.dumps(jsonable(obj), sort_keys=True, separators=(",", ":"))
    return hashlib.sha1(s.encode()).hexdigest()[:16]


def derive_seed(*parts):
    s = "/".join(str(p) for p in parts).encode()
    return zlib.crc32(s) & 0x7FFFFFFF


def phyclone_frame(exc):
    """innermost frame inside the phyclone package, as file:function"""
    tb = traceback.extract_tb(exc.__traceback__)
    inner = None
    for fr in tb:
        if "/phyclone/" in fr.filename and "/tests/" not in fr.filename:
            inner = fr
    if inner is None:
        return None
    return "%s:%s" % (inner.filename.split("/phyclone/", 1)[1], inner.name)


def crash_violation(component, exc, tags=None):
    fr = phyclone_frame(exc)
    if fr is None:
        # no frame of the code under test on the stack: this is a bug of the harness, never a property violation
        raise HarnessError("harness exception in %s: %s" % (component, "".join(traceback.format_exception(type(exc), exc, exc.__traceback__))[-1500:]))
    comp = "%s/%s@%s" % (component, type(exc).__name__, fr or "harness")
    t = dict(tags or {})
    t.update(exc_type=type(exc).__name__, frame=fr)
    return Violation(comp, "%s: %s" % (type(exc).__name__, exc), tags=t)


# ---------------------------------------------------------------------------
# known findings


def load_known(prop):
    path = os.path.join(VERIF, "known_findings.json")
    if not os.path.exists(path):
        return []
    with open(path) as f:
        data = json.load(f)
    return [e for e in data.get("findings", []) if e.get("kind") == "known" and e.get("property") == prop]


def _match_value(pred, val):
    if isinstance(pred, dict):
        if "ge" in pred and not (val is not None and val >= pred["ge"]):
            return False
        if "le" in pred and not (val is not None and val <= pred["le"]):
            return False
        if "in" in pred and val not in pred["in"]:
            return False
        if "prefix" in pred and not (isinstance(val, str) and val.startswith(pred["prefix"])):
            return False
        return True
    return pred == val


def match_known(known, component, tags):
    for e in known:
        if "component_regex" in e:
            import re

            if not re.match(e["component_regex"], component):
                continue
        elif "component_prefix" in e:
            if not component.startswith(e["component_prefix"]):
                continue
        elif e.get("component") != component:
            continue
        if all(_match_value(p, tags.get(k)) for k, p in e.get("match", {}).items()):
            return e
    return None


# ---------------------------------------------------------------------------
# Hypothesis driver (one shard)


def run_shard(mod, ctx: Ctx, shard: int, max_examples: int, confirmed_buckets=(), max_buckets=4) -> Stats:
    """Run Hypothesis on mod.strategy / mod.evaluate for one shard; returns Stats.

    On a failure Hypothesis shrinks; the shrunk case is recorded with its bucket,
    the bucket is excluded and the search restarts (up to max_buckets)."""
    import hypothesis
    from hypothesis import HealthCheck, Phase, given, settings

    stats = Stats()
    strat = mod.strategy(ctx, shard) if getattr(mod, "STRATIFIED", False) else mod.strategy(ctx)
    confirmed = set(confirmed_buckets)
    shrink = getattr(mod, "SHRINK", True)
    phases = [Phase.explicit, Phase.reuse, Phase.generate] + ([Phase.shrink] if shrink else [])
    seen_cases = set()

    for attempt in range(max_buckets + 1):
        last_fail = {}

        @hypothesis.seed(derive_seed(ctx.seed, ctx.prop, shard, attempt))
        @settings(
            max_examples=max_examples,
            database=None,
            deadline=None,
            report_multiple_bugs=False,
            phases=phases,
            suppress_health_check=list(HealthCheck),
            derandomize=False,
            print_blob=False,
        )
        @given(strat)
        def test(case):
            h = case_hash(case)
            first = h not in seen_cases
            seen_cases.add(h)
            try:
                out = safe_evaluate(mod, case)
            except Violation as v:
                if v.bucket() in confirmed:
                    stats.excluded[v.bucket()] = stats.excluded.get(v.bucket(), 0) + 1
                    return
                last_fail["v"] = v
                last_fail["case"] = case
                raise
            if first:
                stats.evaluations += 1
                stats.inner += out.weight
                for c in out.classes:
                    stats.count(c)
                if out.nontrivial:
                    stats.nontrivial_keys.add(case_hash(out.key) if out.key is not None else h)
                    if len(stats.samples) < 4:
                        stats.samples.append(jsonable(out.info if out.info is not None else case))

        try:
            test()
            break
        except Violation:
            v = last_fail["v"]
            is_known = match_known(load_known(ctx.prop), v.component, jsonable(v.tags)) is not None
            if not shrink and hasattr(mod, "shrink_candidates") and not is_known:
                v, last_fail["case"] = greedy_shrink(mod, last_fail["case"], v)
            stats.violations.append(
                dict(component=v.component, message=v.message, tags=jsonable(v.tags), case=jsonable(last_fail["case"]), detail=jsonable(v.detail))
            )
            confirmed.add(v.bucket())
            stats.evaluations += 1
            continue
        except hypothesis.errors.Unsatisfiable as e:  # generator problem -> harness error
            raise HarnessError("generator unsatisfiable: %s" % e)
    return stats


def safe_evaluate(mod, case):
    """evaluate; an exception the check did not classify itself is a violation when the code under test is on the
    stack (bucket: type + innermost phyclone frame), otherwise it propagates as a harness error (exit 2)"""
    try:
        return mod.evaluate(case)
    except (Violation, HarnessError):
        raise
    except Exception as e:
        if phyclone_frame(e) is None:
            raise
        raise crash_violation("uncaught", e)


def greedy_shrink(mod, case, v, max_evals=40):
    """structural delta-debugging for expensive checks: adopt any smaller candidate that fails in the same bucket"""
    evals = 0
    progress = True
    while progress and evals < max_evals:
        progress = False
        for cand in mod.shrink_candidates(case):
            evals += 1
            try:
                safe_evaluate(mod, cand)
            except Violation as v2:
                if v2.bucket() == v.bucket():
                    case, v, progress = cand, v2, True
                    break
            except Exception:
                pass
            if evals >= max_evals:
                break
    return v, case


def _shard_entry(args):
    modname, ctx, shard, n, confirmed = args
    import importlib

    mod = importlib.import_module(modname)
    try:
        return run_shard(mod, ctx, shard, n, confirmed)
    except HarnessError as e:
        return ("harness", str(e))
    except Violation:
        raise
    except Exception as e:  # harness bug
        return ("harness", "".join(traceback.format_exception(type(e), e, e.__traceback__))[-3000:])


def run_sharded(mod, ctx: Ctx, max_examples: int, shards: int) -> Stats:
    import multiprocessing as mp

    per = max(1, math.ceil(max_examples / shards))
    safe_warmup(mod)
    total = Stats()
    if shards == 1:
        res = [_shard_entry((mod.__name__, ctx, 0, per, ()))]
    else:
        with mp.get_context("fork").Pool(min(shards, ctx.procs)) as pool:
            res = pool.map(_shard_entry, [(mod.__name__, ctx, s, per, ()) for s in range(shards)], chunksize=1)
    for r in res:
        if isinstance(r, tuple) and r[0] == "harness":
            raise HarnessError(r[1])
        total.merge(r)
    return total


def safe_warmup(mod):
    """JIT / import warm-up before forking; a property failure here is left for the real run to report"""
    if hasattr(mod, "warmup"):
        try:
            mod.warmup()
        except Violation:
            pass


def pool_map(fn, items, procs=16, chunksize=1):
    import multiprocessing as mp

    if procs <= 1 or len(items) <= 1:
        return [fn(i) for i in items]
    with mp.get_context("fork").Pool(min(procs, len(items))) as pool:
        return pool.map(fn, items, chunksize=chunksize)


# ---------------------------------------------------------------------------
# Evidence


def write_evidence(mod, ctx: Ctx, stats: Stats, wall_s, n_violations, known_lines):
    cov = {
        "evaluations": int(stats.evaluations),
        "distinct_nontrivial": int(len(stats.nontrivial_keys)),
        "rule": mod.RULE,
        "samples": stats.samples[:6],
        "class_histogram": stats.classes,
        "inner_evaluations": int(stats.inner),
        "skipped_or_inconclusive": stats.skipped,
        "excluded_after_confirmation": stats.excluded,
        "known_findings_reported": known_lines,
        "exhaustive": bool(stats.exhaustive),
    }
    if stats.notes:
        cov["notes"] = stats.notes[:20]
    ev = {
        "property_id": ctx.prop,
        "tier": ctx.tier,
        "seed": int(ctx.seed),
        "level": mod.LEVEL,
        "coverage": cov,
        "assumptions": list(getattr(mod, "ASSUMPTIONS", [])),
        "wall_s": round(wall_s, 2),
        "violations": int(n_violations),
    }
    os.makedirs(os.path.join(VERIF, "evidence"), exist_ok=True)
    path = os.path.join(VERIF, "evidence", "%s.json" % ctx.prop)
    tmp = path + ".tmp"
    with open(tmp, "w") as f:
        json.dump(jsonable(ev), f, indent=1, sort_keys=True)
        f.write("\n")
    os.replace(tmp, path)
    return path
