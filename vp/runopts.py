"""Drive phyclone.run.run up to the point where the chains would start: the chain function is replaced by a recorder
and the worker pool by an inline one, so the data points and arguments every chain would receive can be inspected."""
import contextlib
import io
from concurrent.futures import Future


class _InlinePool:
    def __init__(self, *a, **k):
        pass

    def __enter__(self):
        return self

    def __exit__(self, *a):
        return False

    def submit(self, fn, *a, **k):
        f = Future()
        try:
            f.set_result(fn(*a, **k))
        except BaseException as e:  # noqa: BLE001
            f.set_exception(e)
        return f


def capture_run(**kw):
    """returns a list of dict(data=..., outlier_prob=..., chain_num=..., samples=...) - one per chain that would run"""
    import phyclone.run as prun

    calls = []

    def recorder(*a, **k):
        calls.append(dict(data=a[3], outlier_prob=a[9], samples=a[14], chain_num=a[16]))
        return {"data": a[3], "samples": a[14], "trace": [], "chain_num": a[16]}

    saved = (prun.run_phyclone_chain, prun.ProcessPoolExecutor, prun.create_main_run_output)
    prun.run_phyclone_chain = recorder
    prun.ProcessPoolExecutor = _InlinePool
    prun.create_main_run_output = lambda *a, **k: None
    try:
        with contextlib.redirect_stdout(io.StringIO()):
            prun.run(**kw)
    finally:
        prun.run_phyclone_chain, prun.ProcessPoolExecutor, prun.create_main_run_output = saved
    return calls
