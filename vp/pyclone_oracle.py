"""Independent re-derivation of the PyClone emission model (used by C05 and C17) and a pure-Python model of the
loader's filtering rule.  Written from the PyClone/PhyClone papers' description: mixture over mutational genotypes
(mutation before the copy-number event with x = 1..major variant copies against a normal-copy-number reference
population; mutation after it with one variant copy against a total-copy-number reference population; duplicates
removed; uniform prior), expected allele fraction from the normal / reference / variant population weights, binomial
or beta-binomial pmf (scipy), log-sum-exp over genotypes."""
import contextlib
import io
import math
import os
import tempfile

import numpy as np
from scipy.special import logsumexp
from scipy.stats import betabinom, binom


def genotypes(major, minor, normal, eps):
    total = major + minor
    geno = []  # (reference-population copy number, variant-population copy number, variant allele fraction in variant pop)
    for x in range(1, major + 1):
        geno.append((normal, total, min(1 - eps, x / total)))
    if total != normal:
        geno.append((total, total, min(1 - eps, 1 / total)))
    return geno


def emission_grid(ref, alt, major, minor, normal, t, eps, density, precision, G):
    geno = genotypes(major, minor, normal, eps)
    out = np.empty(G)
    d = ref + alt
    for i, f in enumerate(np.linspace(0, 1, G)):
        ll = []
        for cr, cv, mv in geno:
            w = [(1 - t) * normal, t * (1 - f) * cr, t * f * cv]
            xi = (w[0] * eps + w[1] * eps + w[2] * mv) / sum(w)
            if density == "binomial":
                l = binom.logpmf(alt, d, xi)
            else:
                l = betabinom.logpmf(alt, d, xi * precision, precision - xi * precision)
            ll.append(l - math.log(len(geno)))
        out[i] = logsumexp(ll)
    return out


def kept_mutations(rows, samples=None):
    """the documented filter: keep a mutation iff every sample has exactly one row for it with major_cn > 0.
    rows: list of dicts.  Returns (sorted kept ids, sorted sample ids as strings)."""
    usable = [r for r in rows if r["major_cn"] > 0]
    samples = sorted({str(r["sample_id"]) for r in usable})
    count = {}
    for r in usable:
        count[(r["mutation_id"], str(r["sample_id"]))] = count.get((r["mutation_id"], str(r["sample_id"])), 0) + 1
    muts = sorted({r["mutation_id"] for r in usable})
    kept = [m for m in muts if all(count.get((m, s), 0) == 1 for s in samples)]
    return kept, samples


COLUMNS = ["mutation_id", "sample_id", "ref_counts", "alt_counts", "major_cn", "minor_cn", "normal_cn", "tumour_content", "error_rate", "gene", "effect"]


def write_table(rows, path, sep="\t", columns=None):
    cols = columns or [c for c in COLUMNS if any(c in r for r in rows)]
    with open(path, "w") as f:
        f.write(sep.join(cols) + "\n")
        for r in rows:
            f.write(sep.join(_fmt(r[c]) for c in cols) + "\n")


def _fmt(v):
    if isinstance(v, float):
        return repr(v)
    return str(v)


def write_clusters(clusters, path, style="minimal", samples=("A", "B")):
    """clusters: dict mutation_id -> cluster_id.  style "minimal": one row per mutation (mutation_id, cluster_id);
    "pyclone-vi": one row per mutation AND sample with per-sample columns, as PyClone-VI writes its results"""
    with open(path, "w") as f:
        if style == "minimal":
            f.write("mutation_id\tcluster_id\n")
            for m, c in clusters.items():
                f.write("%s\t%s\n" % (m, c))
        else:
            f.write("mutation_id\tsample_id\tcluster_id\tcellular_prevalence\tcellular_prevalence_std\tcluster_assignment_prob\n")
            for m, c in clusters.items():
                for j, smp in enumerate(samples):
                    f.write("%s\t%s\t%s\t%.3f\t%.3f\t1.0\n" % (m, smp, c, 0.1 + 0.2 * j + 0.01 * (hash(str(c)) % 7), 0.02 + 0.01 * j))


def load(rows, scratch, density="binomial", precision=400.0, G=5, outlier_prob=0.0, sep="\t", clusters=None, columns=None, cluster_style="minimal"):
    from phyclone.data.pyclone import load_data

    os.makedirs(scratch, exist_ok=True)
    with tempfile.TemporaryDirectory(dir=scratch) as td:
        p = os.path.join(td, "in.tsv" if sep == "\t" else "in.csv")
        write_table(rows, p, sep=sep, columns=columns)
        cf = None
        if clusters is not None:
            cf = os.path.join(td, "clusters.tsv")
            write_clusters(clusters, cf, style=cluster_style, samples=sorted({str(r["sample_id"]) for r in rows}))
        with contextlib.redirect_stdout(io.StringIO()):
            data, samples = load_data(p, np.random.default_rng(0), 1e-4, 0.4, False, cluster_file=cf, density=density, grid_size=G, outlier_prob=outlier_prob, precision=float(precision))
    return data, samples


def bb_conditioning(ref, alt, major, minor, normal, t, eps, density, precision, G):
    """Floating-point conditioning of the beta-binomial evaluation at each grid point: the pmf is evaluated through
    lgamma(b + n - x) with b = s - xi*s; when x = n and b is tiny, (b + n) - n carries an absolute error of about
    ulp(n), i.e. a relative error ulp(n)/b on b and the same absolute error on the log-pmf.  Returned: (G,) array of
    n / min(a, b) maximised over genotypes (0 for the binomial density); the checks allow 4.5e-16 times this on top of
    their relative tolerance.  (Found by the thorough tier: depth 1, precision 0.05, error rate 1e-6 gives 1.7e-9.)"""
    out = np.zeros(G)
    if density == "binomial":
        return out
    d = ref + alt
    for i, f in enumerate(np.linspace(0, 1, G)):
        worst = 0.0
        for cr, cv, mv in genotypes(major, minor, normal, eps):
            w = [(1 - t) * normal, t * (1 - f) * cr, t * f * cv]
            xi = (w[0] * eps + w[1] * eps + w[2] * mv) / sum(w)
            a = xi * precision
            b = precision - a
            worst = max(worst, max(d, 1) / max(min(a, b), 1e-300))
        out[i] = worst
    return out
