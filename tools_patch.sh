#!/bin/bash
# usage: tools_patch.sh <patch.diff> <check ids...>   (development helper: apply a seeded change, run checks, revert)
p="$(realpath "$1")"; shift
cd /repo || exit 2
if ! git diff --quiet; then echo "repo dirty"; exit 2; fi
git apply "$p" || { echo "patch does not apply"; exit 2; }
cd /verif
for c in "$@"; do VERIF_NOEVIDENCE=1 ./check $c 2>&1 | grep -E "^(violation|VIOLATION|HARNESS|KNOWN|C[0-9]+ tier)" | cut -c1-300; done
cd /repo && git checkout -- . && git status --short | head -3
