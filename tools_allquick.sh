#!/bin/bash
# run every quick check sequentially at a given seed, print the one-line summaries and exit codes
seed=${1:-1}
cd /verif
for i in 01 02 03 04 05 06 07 08 09 10 11 12 13 14 15 16 17 18 19 20; do
  VERIF_SEED=$seed VERIF_NOEVIDENCE=${NOEV:-1} ./check C$i --tier ${TIER:-quick} > /tmp/allq_C$i.log 2>&1; rc=$?
  echo "rc=$rc $(grep -E '^C[0-9]+ tier' /tmp/allq_C$i.log) $(grep -c '^VIOLATION' /tmp/allq_C$i.log) viol $(grep -c HARNESS /tmp/allq_C$i.log) harness"
done
