import numpy as np, traceback, sys, io, contextlib, itertools
from phyclone.data.base import DataPoint
from phyclone.data.pyclone import compute_outlier_prob
from phyclone.run import run_phyclone_chain
from phyclone.tree import Tree

def mk(n, dims, grid, op, seed):
    r=np.random.default_rng(seed)
    a,b=compute_outlier_prob(op,1)
    return [DataPoint(i, r.normal(0,2,size=(dims,grid)), name=f"m{i}", outlier_prob=a, outlier_prob_not=b) for i in range(n)]

def go(n=2,dims=1,grid=11,op=0.0,seed=0,burnin=1,conc=True,alpha=1.0,iters=5,N=2,proposal="semi-adapted",thr=0.5,thin=1,sub=0.0,max_time=float("inf")):
    data=mk(n,dims,grid,op,seed)
    rng=np.random.default_rng(seed)
    buf=io.StringIO()
    try:
        with contextlib.redirect_stdout(buf):
            res=run_phyclone_chain(burnin,conc,alpha,data,max_time,iters,N,1,1,op,100,proposal,thr,rng,["s"]*dims,thin,0,sub)
        lp=[e["log_p_one"] for e in res["trace"]]
        ok=all(np.isfinite(lp))
        return "ok" if ok else f"nonfinite {lp}"
    except Exception as e:
        tb=traceback.extract_tb(e.__traceback__)[-1]
        return f"EXC {type(e).__name__}: {e} @ {tb.filename.split('/')[-1]}:{tb.lineno}"

from collections import Counter
c=Counter()
for n,op,N,thr,proposal,sub,seed in itertools.product([1,2,3],[0.0,0.3,1.0],[1,2,5],[0.0,0.5,1.0],["bootstrap","semi-adapted","fully-adapted"],[0.0,0.5,1.0],[0,1]):
    r=go(n=n,op=op,N=N,thr=thr,proposal=proposal,sub=sub,seed=seed,iters=8)
    if r!="ok":
        c[(r.split(" seed")[0], )]+=1
        if c[(r,)]<=1: print(dict(n=n,op=op,N=N,thr=thr,proposal=proposal,sub=sub,seed=seed), r)
print()
for k,v in c.most_common(): print(v,k)
