import numpy as np, traceback, sys
from phyclone.data.base import DataPoint
from phyclone.tree import Tree, FSCRPDistribution, TreeJointDistribution
from phyclone.smc.swarm import TreeHolder
import rustworkx as rx

def check_wf(t, expected_idxs):
    g=t._graph; root=t._node_indices["root"]
    assert t._node_indices_rev[root]=="root"
    assert len(t._node_indices)==len(t._node_indices_rev)==g.num_nodes(), (t._node_indices, t._node_indices_rev, g.num_nodes())
    for name,idx in t._node_indices.items():
        assert t._node_indices_rev[idx]==name
        assert g[idx].node_id==name, (g[idx].node_id,name)
        if name!="root":
            assert g.in_degree(idx)==1
            assert {d.idx for d in t._data[name]}==g[idx].data_points if name in t._data else g[idx].data_points==set()
    assert g.in_degree(root)==0
    assert len(rx.descendants(g,root))==g.num_nodes()-1
    seen=[]
    for k,v in t._data.items():
        if k=="root": assert not v; continue
        if k!=-1: assert (k in t._node_indices) or not v, ("stale data key",k)
        seen+= [d.idx for d in v]
    assert sorted(seen)==sorted(expected_idxs), (sorted(seen), sorted(expected_idxs))

def rebuild(t):
    """fresh tree same shape"""
    new=Tree(t.grid_size)
    name={}
    def rec(v):
        kids=[rec(c) for c in t.get_children(v)]
        return new.create_root_node(children=kids, data=list(t._data[v]))
    for r in t.roots: rec(r)
    for o in t.outliers: new.add_data_point_to_outliers(o)
    return new

def compare(t, td):
    f=rebuild(t)
    assert f==t and hash(f)==hash(t)
    a=t.data_log_likelihood; b=f.data_log_likelihood
    assert np.allclose(a,b,atol=1e-8,rtol=0), np.abs(a-b).max()
    assert abs(td.log_p_one(t)-td.log_p_one(f))<1e-8
    assert abs(td.log_p(t)-td.log_p(f))<1e-8

def fuzz(seed, steps=60, n=6, G=7, dims=2):
    r=np.random.default_rng(seed)
    data=[DataPoint(i,r.normal(0,3,size=(dims,G)),name=f"m{i}") for i in range(n)]
    td=TreeJointDistribution(FSCRPDistribution(r.uniform(0.2,3)))
    t=Tree((dims,G)); placed=[]
    fresh=True
    ops=[]
    for s in range(steps):
        unplaced=[d for d in data if d.idx not in placed]
        choices=[]
        if unplaced: choices+=["add_root","add_out"]+(["add_existing"] if t.roots else [])
        if placed and not unplaced: choices+=["move","prg","roundtrip","relabel","copy","subtree_cycle"]
        op=r.choice(choices); ops.append(op)
        if op=="add_root":
            d=unplaced[0]; k=r.integers(0,len(t.roots)+1); ch=list(r.choice(t.roots,k,replace=False)) if k else []
            t=t.copy(); t.create_root_node(children=ch,data=[d]); placed.append(d.idx)
        elif op=="add_out":
            d=unplaced[0]; t=t.copy(); t.add_data_point_to_outliers(d); placed.append(d.idx)
        elif op=="add_existing":
            d=unplaced[0]; t=t.copy(); t.add_data_point_to_node(d, r.choice(t.roots)); placed.append(d.idx)
        elif op=="move":
            labels=t.labels; i=r.choice(list(labels)); old=labels[i]
            if t.get_data_len(old)>1 or old==-1:
                d=[x for x in t.data if x.idx==i][0]
                targets=t.nodes+[-1]; new=targets[r.integers(len(targets))]
                t=t.copy(); t.remove_data_point_from_node(d,old)
                if new==-1: t.add_data_point_to_outliers(d)
                else: t.add_data_point_to_node(d,new)
        elif op=="prg":
            if t.get_number_of_nodes()>1:
                p=t.copy(); sr=r.choice(p.nodes); sub=p.get_subtree(sr); p.remove_subtree(sub)
                check_wf(p,[i for i in placed if i not in [d.idx for d in sub.data]])
                rem=p.nodes
                if rem:
                    par=(rem+[None])[r.integers(len(rem)+1)]
                    p.add_subtree(sub,parent=par); p.update(); t=p
        elif op=="subtree_cycle":
            nodes=[l for l in t.labels.values() if l!=-1]
            if nodes:
                c=r.choice(nodes); sr=t.get_parent(c); par=t.get_parent(sr)
                sub=t.get_subtree(sr); t.remove_subtree(sub)
                for d in t.outliers: t.remove_data_point_from_outliers(d); sub.add_data_point_to_outliers(d)
                # "resample": rebuild sub as fresh tree w/ possibly relabel
                sub2=rebuild(sub)
                nt=t.copy(); nt.add_subtree(sub2,parent=par)
                for d in sub2.outliers: nt.add_data_point_to_outliers(d)
                nt.update(); t=nt
        elif op=="roundtrip":
            t=Tree.from_dict(t.to_dict())
        elif op=="relabel":
            t.relabel_nodes()
        elif op=="copy":
            t=t.copy()
        try:
            check_wf(t,placed); compare(t,td)
        except Exception as e:
            print("FAIL seed",seed,"step",s,ops[-8:]); traceback.print_exc(); return False
    return True
bad=0
for seed in range(int(sys.argv[1])):
    try:
        ok=fuzz(seed)
    except Exception as e:
        print("EXC seed",seed); traceback.print_exc(); ok=False
    bad+= (not ok)
    if bad>=3: break
print("done bad=",bad)
