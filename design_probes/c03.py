import numpy as np, math, itertools
from scipy.special import logsumexp
from phyclone.data.base import DataPoint
from phyclone.data.pyclone import compute_outlier_prob
from phyclone.tree import Tree, FSCRPDistribution, TreeJointDistribution
from trees import build, partitions, forests
from c02 import oracle_R

def model_logp(blocks, par, outs, alpha, G, dims):
    K=len(blocks)
    children={i:[c for c in range(K) if par[c]==i] for i in range(K)}
    roots=[i for i in range(K) if par[i]==-1]
    crp=K*math.log(alpha)+sum(math.lgamma(len(b)) for b in blocks)
    mult=sum(math.lgamma(len(children[i])+1) for i in range(K))+math.lgamma(len(roots)+1)
    def size(i): return 1+sum(size(c) for c in children[i])
    r=len(roots)
    Z=sum(1000.0**(-(i-1)) for i in range(1,r+1)) if r>0 else 1.0
    topo_one=-sum((size(i)-1)*math.log(size(i)) for i in roots) - math.log(Z) - (max(r,1)-1)*math.log(1000)
    topo_marg=-(K-1)*math.log(K+1)
    op=0.0
    for b in blocks:
        for d in b:
            if d.outlier_prob!=0: op+=d.outlier_prob_not
    for d in outs:
        if d.outlier_prob!=0: op+=d.outlier_prob
    # data
    dm=0.0; d1=0.0
    if K>0:
        for s in range(dims):
            lp={"root":np.full(G,-math.log(G))}
            ch={"root":roots}
            for i in range(K):
                lp[i]=sum(d.value[s] for d in blocks[i])-math.log(G); ch[i]=children[i]
            R=oracle_R(lp,ch,G)["root"]
            dm+=logsumexp(R); d1+=R[-1]
    om=0.0
    for d in outs:
        for s in range(dims):
            lp={"root":np.full(G,-math.log(G)),0:d.value[s]-math.log(G)}
            R=oracle_R(lp,{"root":[0],0:[]},G)["root"]
            om+=logsumexp(R)
    return crp+topo_marg-mult+op+dm+om, crp+topo_one-mult+op+d1+om

r=np.random.default_rng(3); G=5; dims=2
a,b=compute_outlier_prob(0.3,1)
data=[DataPoint(i,r.normal(0,2,size=(dims,G)),outlier_prob=a if i%2 else 0,outlier_prob_not=b if i%2 else 0) for i in range(4)]
worst=0;cnt=0
for alpha in [0.4,1.0,2.5]:
    td=TreeJointDistribution(FSCRPDistribution(alpha))
    for O in [(),(1,),(0,3),(0,1,2,3)]:
        rest=[d for i,d in enumerate(data) if i not in O]; outs=[data[i] for i in O]
        parts=list(partitions(rest)) if rest else [[]]
        for blocks in parts:
            for par in (forests(len(blocks)) if blocks else [()]):
                t=build((dims,G),blocks,par,outs)
                m=model_logp(blocks,par,outs,alpha,G,dims)
                e=max(abs(m[0]-td.log_p(t)),abs(m[1]-td.log_p_one(t))); worst=max(worst,e);cnt+=1
                if e>1e-8: print("MISMATCH",alpha,O,blocks and [[d.idx for d in b] for b in blocks],par,m,td.log_p(t),td.log_p_one(t)); raise SystemExit
print("C03 ok cases",cnt,"worst",worst)
