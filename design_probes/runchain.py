import os, sys, time, functools, json
import phyclone.run as pr
_delays=json.loads(os.environ.get("VP_DELAYS","{}"))
if _delays:
    _orig=pr.run_phyclone_chain
    @functools.wraps(_orig)
    def run_phyclone_chain(*a,**k):
        chain=a[16]
        d=_delays.get(str(chain),[0,0])
        time.sleep(d[0]); r=_orig(*a,**k); time.sleep(d[1]); return r
    pr.run_phyclone_chain=run_phyclone_chain
if __name__=="__main__":
    aff=os.environ.get("VP_AFF")
    if aff: os.sched_setaffinity(0,{int(x) for x in aff.split(",")})
    kw=json.loads(sys.argv[1])
    pr.run(**kw)
