import numpy as np, pandas as pd, io, contextlib, os, tempfile, traceback
from phyclone.data.pyclone import load_data
def load(df, sep="\t", **kw):
    with tempfile.TemporaryDirectory() as td:
        p=os.path.join(td,"in.tsv"); df.to_csv(p,sep=sep,index=False)
        buf=io.StringIO()
        with contextlib.redirect_stdout(buf):
            data,samples=load_data(p,np.random.default_rng(0),1e-4,0.4,False,density="binomial",grid_size=5,outlier_prob=0,precision=400.0,**kw)
    return [(d.idx,d.name,np.round(d.value,6).tolist()) for d in data],samples
def row(m,s,ref=10,alt=5,maj=2,mino=1,norm=2,**k): return dict(mutation_id=m,sample_id=s,ref_counts=ref,alt_counts=alt,major_cn=maj,minor_cn=mino,normal_cn=norm,**k)
rows=[row("b","s2"),row("b","s1",alt=7),row("a","s1"),row("a","s2",maj=0,mino=0),row("c","s1"),row("c","s2"),row("c","s2",maj=0,mino=0),row("d","s1"),row("d","s1"),row("d","s2"),row("e","s2",alt=1),row("e","s1",alt=2),row(10,"s1"),row(10,"s2"),row(9,"s1"),row(9,"s2")]
df=pd.DataFrame(rows)
a=load(df); b=load(df.sample(frac=1,random_state=3)); c=load(df.sample(frac=1,random_state=4),sep=",")
print([x[:2] for x in a[0]],a[1]); print(a==b, a==c)
# int ids
dfi=pd.DataFrame([row(10,1),row(10,2),row(9,2),row(9,1),row(100,1),row(100,2)])
print([x[:2] for x in load(dfi)[0]], load(dfi)[1])
# defaults
dfd=pd.DataFrame([row("a","s1"),row("a","s2")]); dfe=dfd.assign(tumour_content=1.0,error_rate=0.001)
print(load(dfd)==load(dfe))
try: load(pd.DataFrame([row("a","s1",maj=1,mino=2)]))
except Exception as e: print("err",type(e).__name__)
