import sys, time, numpy as np
from enumrng import EnumRNG, explore
from trees import all_trees, key
from phyclone.data.base import DataPoint
from phyclone.data.pyclone import compute_outlier_prob
from phyclone.tree import FSCRPDistribution, TreeJointDistribution, Tree
from phyclone.smc.kernels import BootstrapKernel, FullyAdaptedKernel, SemiAdaptedKernel
from phyclone.smc.utils import RootPermutationDistribution
from phyclone.mcmc import ParticleGibbsTreeSampler, ParticleGibbsSubtreeSampler, DataPointSampler, PruneRegraphSampler
from phyclone.utils.dev import clear_proposal_dist_caches

def make_data(n, grid, dims, seed, outlier_prob):
    r=np.random.default_rng(seed)
    out=[]
    for i in range(n):
        v=r.normal(0,1.5,size=(dims,grid))
        op,opn=compute_outlier_prob(outlier_prob,1)
        out.append(DataPoint(i,v,outlier_prob=op,outlier_prob_not=opn))
    return out

def check(move, n=2, grid=4, dims=1, seed=0, alpha=1.0, proposal="fully", N=2, thr=0.5, outlier_prob=0.0, perm=True):
    clear_proposal_dist_caches()
    data=make_data(n,grid,dims,seed,outlier_prob)
    tree_dist=TreeJointDistribution(FSCRPDistribution(alpha))
    rng=EnumRNG()
    kcls={"bootstrap":BootstrapKernel,"fully":FullyAdaptedKernel,"semi":SemiAdaptedKernel}[proposal]
    opp=0.1 if outlier_prob>0 else 0.0
    kernel=kcls(tree_dist,rng,outlier_proposal_prob=opp,perm_dist=RootPermutationDistribution() if perm else None)
    if move=="pg": s=ParticleGibbsTreeSampler(kernel,rng,num_particles=N,resample_threshold=thr)
    elif move=="subtree": s=ParticleGibbsSubtreeSampler(kernel,rng,num_particles=N,resample_threshold=thr)
    elif move=="dp": s=DataPointSampler(tree_dist,rng,outliers=outlier_prob>0)
    elif move=="prg": s=PruneRegraphSampler(tree_dist,rng)
    trees=all_trees(data,outlier_prob>0)
    keys=list(trees); idx={k:i for i,k in enumerate(keys)}
    logpi=np.array([tree_dist.log_p_one(trees[k]) for k in keys]); pi=np.exp(logpi-logpi.max()); pi/=pi.sum()
    K=np.zeros((len(keys),len(keys))); leaves=0
    t0=time.time()
    for k in keys:
        if move=="subtree" and len(trees[k].nodes)==0: 
            K[idx[k],idx[k]]=1; continue
        res=explore(lambda: key(s.sample_tree(trees[k].copy())), rng)
        leaves+=len(res)
        for p,o in res: K[idx[k],idx[o]]+=p
    rows=K.sum(1)
    out=pi@K
    print(f"{move} n={n} prop={proposal} N={N} thr={thr} out={outlier_prob} perm={perm} alpha={alpha}: states={len(keys)} leaves={leaves} rowerr={abs(rows-1).max():.2e} inv_err={abs(out-pi).max():.3e} relerr={(abs(out-pi)/pi).max():.3e} t={time.time()-t0:.1f}s")
    return pi,K,keys

if __name__=="__main__":
    import ast
    kw=dict(a.split("=") for a in sys.argv[2:])
    kw={k:(ast.literal_eval(v) if k!="proposal" else v) for k,v in kw.items()}
    check(sys.argv[1],**kw)
