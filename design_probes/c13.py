import numpy as np
from phyclone.mcmc.concentration import GammaPriorConcentrationSampler
class Rec(np.random.Generator):
    def __init__(self, bg, script):
        super().__init__(bg); self.log=[]; self.script=list(script)
    def beta(self,a,b,size=None):
        self.log.append(("beta",a,b,size)); return np.asarray(self.script.pop(0)).reshape(size) if size else self.script.pop(0)
    def standard_gamma(self,shape,size=None,*a,**k):
        self.log.append(("standard_gamma",shape,size)); v=self.script.pop(0); return np.full(size,v) if size else v
    def gamma(self,shape,scale=1.0,size=None):
        self.log.append(("gamma",shape,scale,size)); v=self.script.pop(0); return np.full(size,v) if size else v
    def binomial(self,n,p,size=None):
        self.log.append(("binomial",n,p,size)); v=self.script.pop(0); return np.full(size,v) if size else v
    def random(self,size=None,*a,**k):
        self.log.append(("random",size)); v=self.script.pop(0); return np.full(size,v) if size else v
    def uniform(self,low=0,high=1,size=None):
        self.log.append(("uniform",low,high,size)); v=self.script.pop(0); return np.full(size,v) if size else v
r=Rec(np.random.PCG64(1),[0.3,1,2.5])
s=GammaPriorConcentrationSampler(0.01,0.01,rng=r)
print(s.sample(1.0,3,10)); print(r.log)
