import numpy as np, pandas as pd, io, contextlib, os, tempfile, sys
from scipy.stats import binom, betabinom
from scipy.special import logsumexp
from phyclone.data.pyclone import load_data

def oracle(ref,alt,major,minor,normal,t,eps,density,prec,G):
    total=major+minor
    geno=[]  # (cn_ref_pop, cn_var_pop, mu_var)
    for x in range(1,major+1): geno.append((normal,total,min(1-eps,x/total)))
    g=(total,total,min(1-eps,1/total))
    if (total!=normal): geno.append(g)
    out=np.empty(G)
    for i,f in enumerate(np.linspace(0,1,G)):
        ll=[]
        for (cr,cv,mv) in geno:
            w=[(1-t)*normal,t*(1-f)*cr,t*f*cv]
            xi=(w[0]*eps+w[1]*eps+w[2]*mv)/sum(w)
            d=ref+alt
            if density=="binomial": l=binom.logpmf(alt,d,xi)
            else: l=betabinom.logpmf(alt,d,xi*prec,prec-xi*prec)
            ll.append(l-np.log(len(geno)))
        out[i]=logsumexp(ll)
    return out
r=np.random.default_rng(int(sys.argv[1])); worst=0
rows=[]; exp={}
for m in range(40):
    major=int(r.integers(1,5)); minor=int(r.integers(0,major+1)); normal=int(r.choice([1,2]))
    for s in ["S1","S2"]:
        d=int(r.choice([0,5,60,2000])); alt=int(r.integers(0,d+1)); t=float(r.uniform(0.1,1)); eps=float(r.choice([1e-3,1e-2,0.2]))
        rows.append(dict(mutation_id=f"m{m:02d}",sample_id=s,ref_counts=d-alt,alt_counts=alt,major_cn=major,minor_cn=minor,normal_cn=normal,tumour_content=t,error_rate=eps))
df=pd.DataFrame(rows)
with tempfile.TemporaryDirectory() as td:
    p=os.path.join(td,"in.tsv"); df.sample(frac=1,random_state=1).to_csv(p,sep="\t",index=False)
    for density,prec in [("binomial",400.0),("beta-binomial",400.0),("beta-binomial",3.5)]:
        for G in [11,3]:
            with contextlib.redirect_stdout(io.StringIO()):
                data,samples=load_data(p,np.random.default_rng(0),1e-4,0.4,False,density=density,grid_size=G,outlier_prob=0,precision=prec)
            for dp in data:
                for si,s in enumerate(samples):
                    row=df[(df.mutation_id==dp.name)&(df.sample_id==s)].iloc[0]
                    o=oracle(row.ref_counts,row.alt_counts,row.major_cn,row.minor_cn,row.normal_cn,row.tumour_content,row.error_rate,density,prec,G)
                    e=np.abs(o-dp.value[si]).max(); 
                    if e>1e-7: print("MISMATCH",dict(row),density,prec,G,e)
                    worst=max(worst,e)
print("worst abs log diff",worst, [d.name for d in data][:3], samples)
