import numpy as np, traceback
from phyclone.data.base import DataPoint
from phyclone.tree import Tree
from phyclone.process_trace.consensus import get_consensus_tree
from phyclone.process_trace.process_trace import get_tree_from_consensus_graph, get_clone_table
gs=(1,5)
data=[DataPoint(i,np.zeros(gs),name=f"m{i}") for i in range(4)]
def T(spec):
    # spec: list of (own idxs, children spec)
    t=Tree(gs)
    def rec(s):
        own,ch=s
        kids=[rec(c) for c in ch]
        return t.create_root_node(children=kids,data=[data[i] for i in own])
    for s in spec: rec(s)
    return t
# T1: {0,1} node own {1} child {0}; {2,3}: own {3} child {2}
t1=T([([1],[([0],[])]), ([3],[([2],[])])])
t2=T([([0],[([1],[])]), ([2],[([3],[])])])
t3=T([([0],[]),([1],[]),([2],[]),([3],[])])
for thr in [0.5, 1.0]:
    try:
        g=get_consensus_tree([t1,t2,t3], data=data, threshold=thr)
        print(thr, "nodes", dict(g.nodes(data="idxs")), "edges", list(g.edges))
        tree=get_tree_from_consensus_graph(data,g)
        print(" clades", tree.get_clades(), "outliers", [d.idx for d in tree.outliers], tree.to_newick_string())
        print(get_clone_table(data,["s"],tree))
    except Exception:
        traceback.print_exc()
