import numpy as np, io, contextlib, itertools
from phyclone.data.base import DataPoint
from phyclone.data.pyclone import compute_outlier_prob
from phyclone.run import run_phyclone_chain
from phyclone.tree import Tree, FSCRPDistribution, TreeJointDistribution
bad=0;cnt=0
for seed,(op,thin,conc,prop,sub) in enumerate(itertools.product([0.0,0.2],[1,3],[True,False],["semi-adapted","fully-adapted","bootstrap"],[0.0,0.5])):
    r=np.random.default_rng(seed); n=4; gs=(2,11)
    a,b=compute_outlier_prob(op,1)
    data=[DataPoint(i,r.normal(0,2,size=gs),name=f"m{i}",outlier_prob=a,outlier_prob_not=b) for i in range(n)]
    with contextlib.redirect_stdout(io.StringIO()):
        res=run_phyclone_chain(1,conc,1.0,data,float("inf"),7,4,1,1,op,100,prop,0.5,np.random.default_rng(seed),["a","b"],thin,0,sub)
    iters=[e["iter"] for e in res["trace"]]
    exp=[0]+[i for i in range(7) if i%thin==0]
    ok=iters==exp
    alphas=set()
    for e in res["trace"]:
        t=Tree.from_dict(e["tree"]); alphas.add(e["alpha"])
        lp=TreeJointDistribution(FSCRPDistribution(e["alpha"])).log_p_one(t)
        ok&=abs(lp-e["log_p_one"])<1e-8 and sorted(t.labels)==list(range(n))
    cnt+=1
    if not ok: bad+=1; print("BAD",seed,op,thin,conc,prop,sub,iters,exp)
print("cases",cnt,"bad",bad)
