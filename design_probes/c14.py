import numpy as np, functools
import phyclone.tree.tree_node as tn, phyclone.tree.utils as tu
import phyclone.smc.kernels.semi_adapted as sa, phyclone.smc.kernels.fully_adapted as fa
from phyclone.data.base import DataPoint
from phyclone.tree import Tree, FSCRPDistribution, TreeJointDistribution
from phyclone.smc.kernels import SemiAdaptedKernel, FullyAdaptedKernel
from phyclone.smc.utils import RootPermutationDistribution
from phyclone.mcmc import ParticleGibbsTreeSampler, DataPointSampler, PruneRegraphSampler
from phyclone.utils.dev import clear_proposal_dist_caches
stats={"S":[0,0],"C":[0,0],"semi":[0,0],"full":[0,0],"new":[0,0]}
def hit(f,before): return f.cache_info().hits>before
# arrays
oS=tn.compute_log_S
def sS(children):
    h=oS.cache_info().hits; r=oS(children); ref=oS.__wrapped__(np.array(children,order="C"))
    stats["S"][0]+=1; stats["S"][1]+=hit(oS,h); assert np.allclose(r,ref,atol=1e-10,rtol=0); return r
tn.compute_log_S=sS
oC=tu._convolve_two_children
def sC(a,b):
    h=oC.cache_info().hits; r=oC(a,b); ref=oC.__wrapped__(a,b)
    stats["C"][0]+=1; stats["C"][1]+=hit(oC,h); assert np.allclose(r,ref,atol=1e-10,rtol=0); return r
tu._convolve_two_children=sC
def key(t): return (t.get_clades(), frozenset(d.idx for d in t.outliers))
def dist_view(pd):
    return {key(h.tree):float(v) for h,v in pd._log_p.items()}
def shadow_prop(mod,name,tag):
    o=getattr(mod,name)
    def s(data_point,kernel,parent_particle,opp,alpha):
        bt=None
        if parent_particle is not None:
            bt=parent_particle._built_tree[0] if len(parent_particle._built_tree) else None
        h=o.cache_info().hits; r=o(data_point,kernel,parent_particle,opp,alpha)
        if parent_particle is not None: parent_particle._built_tree.append(bt if bt is not None else parent_particle.tree)
        ref=o.__wrapped__(data_point,kernel,parent_particle,opp,alpha)
        stats[tag][0]+=1; stats[tag][1]+=hit(o,h)
        a,b=dist_view(r),dist_view(ref); assert a.keys()==b.keys() and all(abs(a[k]-b[k])<1e-10 for k in a),(a,b)
        return r
    s.cache_clear=o.cache_clear; s.cache_info=o.cache_info
    setattr(mod,name,s)
shadow_prop(sa,"_get_cached_semi_proposal_dist","semi"); shadow_prop(fa,"_get_cached_full_proposal_dist","full")
r=np.random.default_rng(0); gs=(2,8)
data=[DataPoint(i,r.normal(0,2,size=gs),name=f"m{i}") for i in range(6)]
td=TreeJointDistribution(FSCRPDistribution(1.0))
for K in [SemiAdaptedKernel,FullyAdaptedKernel]:
    k=K(td,r,outlier_proposal_prob=0.0,perm_dist=RootPermutationDistribution())
    pg=ParticleGibbsTreeSampler(k,r,num_particles=8); dp=DataPointSampler(td,r); prg=PruneRegraphSampler(td,r)
    t=Tree.get_single_node_tree(data)
    for it in range(6):
        if it%2==0: clear_proposal_dist_caches()
        t=pg.sample_tree(t); t=dp.sample_tree(t); t=prg.sample_tree(t); t.relabel_nodes()
        if it==3: td.prior.alpha=2.0
print(stats)
