import numpy as np, itertools, math
from enumrng import EnumRNG, explore
from phyclone.data.base import DataPoint
from phyclone.data.pyclone import compute_outlier_prob
from phyclone.tree import Tree, FSCRPDistribution, TreeJointDistribution
from phyclone.smc.kernels import BootstrapKernel, SemiAdaptedKernel, FullyAdaptedKernel
from phyclone.smc.swarm import TreeHolder, Particle
from phyclone.smc.utils import RootPermutationDistribution as RPD
gs=(1,4); r=np.random.default_rng(0)
a,b=compute_outlier_prob(0.2,1)
data=[DataPoint(i,r.normal(size=gs),outlier_prob=a,outlier_prob_not=b) for i in range(3)]
td=TreeJointDistribution(FSCRPDistribution(1.0)); rng=EnumRNG()
for K in [BootstrapKernel,SemiAdaptedKernel,FullyAdaptedKernel]:
    k=K(td,rng,outlier_proposal_prob=0.1,perm_dist=RPD())
    t=Tree(gs); t.add_data_point_to_outliers(data[0])
    parent=Particle(0,None,TreeHolder(t,td,k.perm_dist),td,k.perm_dist)
    pd=k.get_proposal_distribution(data[1],parent,t)
    res=explore(lambda: pd.sample(), rng)
    tot=0
    for p,tr in res:
        lp=pd.log_p(tr); tot+=math.exp(lp)
        print(K.__name__, "sampled prob",round(p,4),"reported",round(math.exp(lp),4), tr.labels)
    print("  sum reported over sampled support", tot)
# C09 uniformity
t=Tree(gs)
dps=[DataPoint(i,np.zeros(gs)) for i in range(6)]
n0=t.create_root_node([], [dps[0]]); n1=t.create_root_node([n0],[dps[1],dps[2]]); n2=t.create_root_node([],[dps[3]])
t.add_data_point_to_outliers(dps[4]); 
res=explore(lambda: tuple(d.idx for d in RPD.sample(t,rng)), rng)
from collections import defaultdict
dist=defaultdict(float)
for p,o in res: dist[o]+=p
print(len(dist), min(dist.values()), max(dist.values()), math.exp(RPD.log_pdf(t)), "leaves",len(res))
