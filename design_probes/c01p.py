import sys, ast
import patches
for p in sys.argv[1]:
    if p in "ABCDE": getattr(patches,"patch_"+p)()
from c01 import check
kw=dict(a.split("=") for a in sys.argv[3:])
kw={k:(ast.literal_eval(v) if k!="proposal" else v) for k,v in kw.items()}
check(sys.argv[2],**kw)
