import numpy as np
from scipy.special import logsumexp
from phyclone.tree.utils import _convolve_two_children, _np_conv_dims
from phyclone.utils.math import fft_convolve_two_children
r=np.random.default_rng(2)
def conv(a,b):
    G=len(a); out=np.empty(G)
    for k in range(G): out[k]=logsumexp(a[:k+1]+b[k::-1][:k+1])
    return out
for G in [1000,2000]:
  for scale in [0.5,2,10,50]:
    a=r.normal(0,scale,size=(1,G)); b=r.normal(0,scale,size=(1,G))
    ex=conv(a[0],b[0]); peak=a.max()+b.max()
    for name,f in [("fft",fft_convolve_two_children),("direct",_np_conv_dims)]:
        got=f(a,b)[0]
        lin_err=np.abs(np.exp(got-peak)-np.exp(ex-peak))
        rowpeak=np.exp(ex.max()-peak)
        print(G,scale,name,"max abs lin err / inputs-peak-product:",lin_err.max(),"rel to row peak:",lin_err.max()/rowpeak, "min(got-ex)",(got-ex).min(), "n floored", int((got<=peak+np.log(1e-100)+1e-9).sum()))
