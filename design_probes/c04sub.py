import sys, ast, itertools, time, numpy as np
import patches
for p in sys.argv[1]:
    if p in "ABCDE": getattr(patches,"patch_"+p)()
from enumrng import EnumRNG, explore
from trees import all_trees, key
from c01 import make_data
from phyclone.tree import FSCRPDistribution, TreeJointDistribution, Tree
from phyclone.smc.kernels import BootstrapKernel, FullyAdaptedKernel, SemiAdaptedKernel
from phyclone.smc.utils import RootPermutationDistribution
from phyclone.mcmc import ParticleGibbsSubtreeSampler
from phyclone.utils.dev import clear_proposal_dist_caches

def inner(s, ctx, parent, forest):
    tree=ctx.copy(); sub=forest.copy()
    swarm=s.sample_swarm(sub)
    swarm=s._correct_weights(parent, swarm, tree)
    return s._sample_tree_from_swarm(swarm)

def run(n=3, grid=4, dims=1, seed=0, alpha=0.7, proposal="fully", N=2, thr=0.5, outlier_prob=0.0):
    data=make_data(n,grid,dims,seed,outlier_prob)
    tree_dist=TreeJointDistribution(FSCRPDistribution(alpha))
    rng=EnumRNG()
    kcls={"bootstrap":BootstrapKernel,"fully":FullyAdaptedKernel,"semi":SemiAdaptedKernel}[proposal]
    opp=0.1 if outlier_prob>0 else 0.0
    kernel=kcls(tree_dist,rng,outlier_proposal_prob=opp,perm_dist=RootPermutationDistribution())
    s=ParticleGibbsSubtreeSampler(kernel,rng,num_particles=N,resample_threshold=thr)
    worst=0
    for r in range(1,n):
        for cidx in itertools.combinations(range(n),r):
            cdata=[data[i] for i in cidx]; fdata=[data[i] for i in range(n) if i not in cidx]
            ctxs=all_trees(cdata, False)   # context has no outliers (they're moved to subtree)
            forests=all_trees(fdata, outlier_prob>0)
            for ck,ctx in ctxs.items():
                for parent in ctx.nodes+["root"]:
                    # S = ctx + F at parent
                    def compose(F):
                        t=ctx.copy(); t.add_subtree(F,parent=parent)
                        for o in F.outliers: t.add_data_point_to_outliers(o)
                        t.update(); return t
                    S={}
                    for fk,F in forests.items():
                        t=compose(F); S[key(t)]=(F,t)
                    keys=list(S); idx={k:i for i,k in enumerate(keys)}
                    lp=np.array([tree_dist.log_p_one(S[k][1]) for k in keys]); pi=np.exp(lp-lp.max()); pi/=pi.sum()
                    K=np.zeros((len(keys),)*2)
                    for k in keys:
                        F=S[k][0]
                        if len(F.nodes)==0 and len(F.outliers)==0: continue
                        res=explore(lambda: key(inner(s,ctx,parent,F)), rng)
                        for p,o in res: K[idx[k],idx[o]]+=p
                    err=abs(pi@K-pi).max(); worst=max(worst,err)
    print(f"inner subtree n={n} prop={proposal} out={outlier_prob}: worst inv_err={worst:.3e}")
kw=dict(a.split("=") for a in sys.argv[2:])
kw={k:(ast.literal_eval(v) if k!="proposal" else v) for k,v in kw.items()}
run(**kw)
