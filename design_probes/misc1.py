import numpy as np, traceback
from phyclone.data.base import DataPoint
from phyclone.tree import Tree, FSCRPDistribution, TreeJointDistribution
from phyclone.process_trace.process_trace import get_clone_table
from phyclone.process_trace.map import get_map_node_ccfs_and_clonal_prev_dicts
gs=(2,5)
r=np.random.default_rng(0)
data=[DataPoint(i, r.normal(size=gs), name=f"m{i}") for i in range(3)]
t=Tree(gs)
for d in data: t.add_data_point_to_outliers(d)
try:
    print(get_clone_table(data, ["s1","s2"], t))
except Exception as e:
    traceback.print_exc()
t2=Tree.get_single_node_tree(data)
print(get_clone_table(data, ["s1","s2"], t2))
