import gzip,pickle,sys
from phyclone.tree import Tree
def load(p):
    r=pickle.load(gzip.open(p,"rb"))
    out={}
    for c,v in r.items():
        out[c]=[(e["iter"],e["alpha"],e["log_p_one"],Tree.from_dict(e["tree"]).get_clades(),tuple(sorted(Tree.from_dict(e["tree"]).labels.items()))) for e in v["trace"]]
    return out, list(r.keys())
a,ka=load(sys.argv[1]); b,kb=load(sys.argv[2])
print("same" if a==b else "DIFF", ka, kb)
