import itertools, math
import numpy as np

class _LazyU:
    __slots__=("rng","lo","hi")
    def __init__(self, rng): self.rng=rng; self.lo=0.0; self.hi=1.0
    def __lt__(self, x):
        x=float(x)
        if x<=self.lo: return False
        if x>=self.hi: return True
        p=(x-self.lo)/(self.hi-self.lo)
        k=self.rng._decide([p,1-p])
        if k==0: self.hi=x; return True
        self.lo=x; return False
    def __ge__(self,x): return not self.__lt__(x)
    def __le__(self,x): return self.__lt__(x)
    def __gt__(self,x): return not self.__lt__(x)

class EnumRNG:
    def __init__(self): self.reset([])
    def reset(self,prefix):
        self.prefix=list(prefix); self.pos=0; self.prob=1.0; self.trace=[]  # list of (choice, nopts)
    def _decide(self, probs):
        # probs: list of probabilities (may contain zeros)
        opts=[i for i,p in enumerate(probs) if p>0]
        if self.pos<len(self.prefix): j=self.prefix[self.pos]
        else: j=0
        self.pos+=1
        self.trace.append((j,len(opts)))
        k=opts[j]
        self.prob*=probs[k]
        return k
    def random(self): return _LazyU(self)
    def integers(self, low, high=None, endpoint=False):
        if high is None: low,high=0,low
        n=high-low+(1 if endpoint else 0)
        return low+self._decide([1.0/n]*n)
    def choice(self, a, size=None, replace=True, p=None):
        a=list(a)
        assert p is None
        if size is None:
            return a[self._decide([1.0/len(a)]*len(a))]
        assert replace is False
        rem=list(a); out=[]
        for _ in range(int(size)):
            k=self._decide([1.0/len(rem)]*len(rem))
            out.append(rem.pop(k))
        return np.asarray(out) if len(out)>0 else np.asarray(out,dtype=np.asarray(a).dtype if len(a) else float)
    def multinomial(self, n, pvals):
        pvals=np.asarray(pvals,dtype=float); pvals=pvals/pvals.sum()
        counts=np.zeros(len(pvals),dtype=int)
        # sequential n draws is exchangeable; enumerate compositions instead
        n=int(n)
        if n==0: return counts
        if n==1:
            k=self._decide(list(pvals)); counts[k]=1; return counts
        comps=[]; probs=[]
        K=len(pvals)
        for c in itertools.product(range(n+1),repeat=K):
            if sum(c)!=n: continue
            pr=math.factorial(n)
            for ci,pi in zip(c,pvals):
                pr*= (pi**ci)/math.factorial(ci) if ci>0 else 1.0
            comps.append(c); probs.append(pr)
        k=self._decide(probs)
        return np.array(comps[k],dtype=int)
    def shuffle(self, x):
        items=list(x); out=[]
        while items:
            # group equal items
            uniq=[]; cnt=[]
            for it in items:
                for ui,u in enumerate(uniq):
                    if u is it or u==it: cnt[ui]+=1; break
                else: uniq.append(it); cnt.append(1)
            tot=len(items)
            k=self._decide([c/tot for c in cnt])
            u=uniq[k]
            for ii,it in enumerate(items):
                if it is u or it==u: out.append(items.pop(ii)); break
        x[:]=out

def explore(fn, rng, max_leaves=10**7):
    """fn() uses rng; returns list of (prob, outcome)."""
    results=[]; stack=[[]]; leaves=0
    while stack:
        prefix=stack.pop()
        rng.reset(prefix)
        out=fn()
        leaves+=1
        results.append((rng.prob,out))
        choices=[c for c,_ in rng.trace]
        for pos in range(len(prefix), len(rng.trace)):
            for alt in range(1, rng.trace[pos][1]):
                stack.append(choices[:pos]+[alt])
        if leaves>max_leaves: raise RuntimeError("too many leaves")
    return results
