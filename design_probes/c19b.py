import numpy as np, traceback, sys, io, contextlib, itertools, json
from collections import Counter
from c19 import mk
from phyclone.run import run_phyclone_chain
from phyclone.tree import Tree
shard=int(sys.argv[1]); nshards=int(sys.argv[2])
r=np.random.default_rng(1000+shard)
c=Counter(); ex={}
N_CASES=int(sys.argv[3])
for it in range(N_CASES):
    n=int(r.integers(1,6)); dims=int(r.integers(1,4)); op=float(r.choice([0.0,1e-4,0.3,0.9,1.0])); N=int(r.choice([1,2,3,7])); thr=float(r.choice([0.0,0.3,0.5,1.0]))
    prop=str(r.choice(["bootstrap","semi-adapted","fully-adapted"])); sub=float(r.choice([0.0,0.5,1.0])); thin=int(r.choice([1,2,5])); burn=int(r.choice([1,2]))
    conc=bool(r.integers(2)); mt=float(r.choice([0.0,float("inf")])); iters=int(r.integers(1,9)); alpha=float(r.choice([0.01,1.0,20.0])); seed=int(r.integers(1<<30))
    scale=float(r.choice([0.0,2.0,40.0]))
    cfg=dict(n=n,dims=dims,op=op,N=N,thr=thr,prop=prop,sub=sub,thin=thin,burn=burn,conc=conc,mt=mt,iters=iters,alpha=alpha,seed=seed,scale=scale)
    rr=np.random.default_rng(seed)
    from phyclone.data.base import DataPoint
    from phyclone.data.pyclone import compute_outlier_prob
    with np.errstate(all="ignore"):
        a,b=compute_outlier_prob(op,1)
    data=[DataPoint(i, rr.normal(0,scale,size=(dims,11)) if scale>0 else np.zeros((dims,11)), name=f"m{i}", outlier_prob=a, outlier_prob_not=b) for i in range(n)]
    try:
        with contextlib.redirect_stdout(io.StringIO()), np.errstate(all="ignore"):
            res=run_phyclone_chain(burn,conc,alpha,data,mt,iters,N,1,1,op,100,prop,thr,np.random.default_rng(seed),["s"]*dims,thin,0,sub)
        bad=None
        for e in res["trace"]:
            t=Tree.from_dict(e["tree"])
            if sorted(t.labels)!=list(range(n)): bad="labels"
            if not np.isfinite(e["log_p_one"]): bad="nonfinite log_p_one"
        key=bad or "ok"
    except Exception as e:
        tb=[f for f in traceback.extract_tb(e.__traceback__) if "/repo/phyclone" in f.filename]
        f=tb[-1] if tb else traceback.extract_tb(e.__traceback__)[-1]
        key=f"{type(e).__name__}@{f.filename.split('/')[-1]}:{f.name}:{f.lineno}"
    c[key]+=1
    if key!="ok" and key not in ex: ex[key]=cfg
print(json.dumps({"counts":c,"examples":ex}))
