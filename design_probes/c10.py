import numpy as np, itertools, math, sys
from phyclone.data.base import DataPoint
from phyclone.tree import Tree
from phyclone.process_trace.map import get_map_node_ccfs_and_clonal_prev_dicts
from trees import build, partitions, forests

def brute(tree, s):
    nodes=tree.nodes; G=tree.grid_size[1]
    lp={v:tree._graph[tree._node_indices[v]].log_p[s] for v in nodes}
    ch={v:tree.get_children(v) for v in nodes}; roots=tree.roots
    best=-np.inf
    for assign in itertools.product(range(G),repeat=len(nodes)):
        a=dict(zip(nodes,assign))
        if sum(a[r] for r in roots)>G-1: continue
        if any(a[v]<sum(a[c] for c in ch[v]) for v in nodes): continue
        best=max(best,sum(lp[v][a[v]] for v in nodes))
    return best

r=np.random.default_rng(int(sys.argv[1])); bad=0;cnt=0
for it in range(int(sys.argv[2])):
    n=int(r.integers(1,6)); G=int(r.integers(2,6)); dims=int(r.integers(1,3))
    ties=r.random()<0.5
    data=[DataPoint(i,(r.integers(-3,3,size=(dims,G)).astype(float) if ties else r.normal(0,2,size=(dims,G)))) for i in range(n)]
    parts=list(partitions(data)); blocks=parts[r.integers(len(parts))]
    fs=list(forests(len(blocks))); par=fs[r.integers(len(fs))]
    t=build((dims,G),blocks,par,[])
    ccf,cp=get_map_node_ccfs_and_clonal_prev_dicts(t)
    for s in range(dims):
        idx={v:ccf[v][s]*(G-1) for v in t.nodes}
        ok=all(abs(i-round(i))<1e-9 and -1e-9<=i<=G-1+1e-9 for i in idx.values())
        idx={v:int(round(i)) for v,i in idx.items()}
        ok&=sum(idx[x] for x in t.roots)<=G-1
        ok&=all(idx[v]>=sum(idx[c] for c in t.get_children(v)) for v in t.nodes)
        val=sum(t._graph[t._node_indices[v]].log_p[s][idx[v]] for v in t.nodes)
        b=brute(t,s)
        ok&=abs(val-b)<1e-9
        ok&=all(cp[v][s]>=-1e-12 for v in t.nodes)
        cnt+=1
        if not ok:
            bad+=1; print("BAD", n,G,dims,ties,[[d.idx for d in bl] for bl in blocks],par,"s",s,idx,val,b)
print("cases",cnt,"bad",bad)
