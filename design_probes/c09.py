import itertools, math, numpy as np
from phyclone.data.base import DataPoint
from phyclone.tree import Tree
from phyclone.smc.utils import RootPermutationDistribution as RPD

gs=(1,4)
def dp(i): return DataPoint(i, np.zeros(gs))
def count_orders(tree):
    data = tree.data
    labels = tree.labels
    n=len(data)
    # ancestors
    cnt=0
    desc = {node:set(tree.get_descendants(node)) for node in tree.nodes}
    for perm in itertools.permutations(range(n)):
        pos={data[j].idx:i for i,j in enumerate(perm)}
        ok=True
        for a in data:
            la=labels[a.idx]
            if la==-1: continue
            for b in data:
                lb=labels[b.idx]
                if lb==-1: continue
                if lb in desc[la] and pos[b.idx]>pos[a.idx]:
                    ok=False;break
            if not ok:break
        cnt+=ok
    return cnt
# tree: chain 0 <- 1, plus outliers
for nout in range(0,4):
    t=Tree(gs)
    n0=t.create_root_node([], [dp(0)])
    n1=t.create_root_node([n0],[dp(1),dp(2)])
    for k in range(nout):
        t.add_data_point_to_outliers(dp(10+k))
    print(nout, count_orders(t), math.exp(RPD.log_count(t)))
