import numpy as np, os, tempfile, io, contextlib, time, traceback, hashlib
from collections import Counter
from phyclone.data.base import DataPoint
from phyclone.tree import Tree, FSCRPDistribution, TreeJointDistribution
from phyclone.process_trace import write_map_results, write_consensus_results, write_topology_report, create_main_run_output
from trees import all_trees
r=np.random.default_rng(0); gs=(2,11)
data=[DataPoint(i,r.normal(0,2,size=gs),name=f"m{i}") for i in range(3)]
td=TreeJointDistribution(FSCRPDistribution(1.0))
trees=list(all_trees(data,False).values())
results={}
for c in [1,0]:
    trace=[]
    for i in range(4):
        t=trees[r.integers(len(trees))]
        trace.append({"iter":i,"time":0.0,"alpha":1.0,"log_p_one":td.log_p_one(t),"tree":t.to_dict()})
    results[c]={"data":data,"samples":["a","b"],"trace":trace,"chain_num":c}
d=tempfile.mkdtemp()
full=os.path.join(d,"t.pkl.gz"); create_main_run_output(None,full,results)
blob=open(full,"rb").read(); print("size",len(blob))
def run_all(path,tag):
    outs={}
    for name,fn in [("map",lambda: write_map_results(path,os.path.join(d,tag+"m.tsv"),os.path.join(d,tag+"m.nwk"))),
                    ("mapf",lambda: write_map_results(path,os.path.join(d,tag+"mf.tsv"),os.path.join(d,tag+"mf.nwk"),map_type="frequency")),
                    ("topo",lambda: write_topology_report(path,os.path.join(d,tag+"t.tsv"))),
                    ("cons",lambda: write_consensus_results(path,os.path.join(d,tag+"c.tsv"),os.path.join(d,tag+"c.nwk"))),
                    ("consc",lambda: write_consensus_results(path,os.path.join(d,tag+"cc.tsv"),os.path.join(d,tag+"cc.nwk"),weight_type="counts"))]:
        try:
            with contextlib.redirect_stdout(io.StringIO()): fn()
            outs[name]="ok"
        except BaseException as e:
            outs[name]=type(e).__name__
    return outs
t0=time.time(); print(run_all(full,"full"), time.time()-t0)
print(open(os.path.join(d,"fullm.tsv")).read()); print(open(os.path.join(d,"fullm.nwk")).read()); print(open(os.path.join(d,"fullt.tsv")).read())
print(open(os.path.join(d,"fullc.tsv")).read()); print(open(os.path.join(d,"fullc.nwk")).read())
c=Counter(); t0=time.time()
for L in range(len(blob)):
    p=os.path.join(d,"p.pkl.gz"); open(p,"wb").write(blob[:L])
    o=run_all(p,"p")
    for k,v in o.items(): c[(k,v)]+=1
    if any(v=="ok" for v in o.values()): print("PREFIX OK",L,o)
print(c, time.time()-t0)
