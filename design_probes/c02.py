import numpy as np, itertools, time
from scipy.special import logsumexp
from phyclone.data.base import DataPoint
from phyclone.tree import Tree
from trees import build

def oracle_R(node_lp, children, G):
    """children: dict node->list; node_lp: dict node->(G,) log p (incl prior). returns dict node-> log R (1 dim) via log-space DP"""
    R={}
    def conv(a,b):
        out=np.full(G,-np.inf)
        for k in range(G):
            out[k]=logsumexp(a[:k+1]+b[k::-1][:k+1])
        return out
    def rec(v):
        if not children[v]: R[v]=node_lp[v].copy(); return
        for c in children[v]: rec(c)
        D=None
        for c in children[v]:
            D=R[c] if D is None else conv(D,R[c])
        S=np.logaddexp.accumulate(D)
        R[v]=node_lp[v]+S
    rec("root"); return R

def brute(node_lp, children, G):
    nodes=[v for v in node_lp if v!="root"]
    out=np.full(G,-np.inf)
    acc=[[] for _ in range(G)]
    for assign in itertools.product(range(G),repeat=len(nodes)):
        a=dict(zip(nodes,assign))
        ok=all(a[v]>=sum(a[c] for c in children[v]) for v in nodes)
        if not ok: continue
        top=sum(a[c] for c in children["root"])
        val=sum(node_lp[v][a[v]] for v in nodes)
        for k in range(top,G): acc[k].append(val)
    return np.array([logsumexp(x) if x else -np.inf for x in acc])+node_lp["root"]

r=np.random.default_rng(1)
G=5
# tree: root -> A(children B,C), D
blocks=[[0],[1],[2],[3]]
par=(-1,0,0,-1)
data=[DataPoint(i, r.normal(0,3,size=(1,G))) for i in range(4)]
t=build((1,G),[[data[i]] for i in range(4)],par,[])
lp={"root":np.full(G,-np.log(G))}
for i in range(4): lp[i]=data[i].value[0]-np.log(G)
ch={"root":[0,3],0:[1,2],1:[],2:[],3:[]}
print("impl ",t.data_log_likelihood[0])
print("dp   ",oracle_R(lp,ch,G)["root"])
print("brute",brute(lp,ch,G))

# FFT accuracy at G=1000/1001
for G in [999,1000,1500]:
    for scale in [1,10,50,200]:
        data=[DataPoint(i, r.normal(0,scale,size=(1,G))) for i in range(3)]
        t0=time.time()
        t=build((1,G),[[d] for d in data],(-1,0,0),[])
        ti=time.time()-t0
        lp={"root":np.full(G,-np.log(G))}
        for i in range(3): lp[i]=data[i].value[0]-np.log(G)
        ch={"root":[0],0:[1,2],1:[],2:[]}
        t0=time.time(); R=oracle_R(lp,ch,G); to=time.time()-t0
        imp=t.data_log_likelihood[0]; ex=R["root"]
        # conv level
        node0=t._graph[t._node_indices[0]].log_r[0]
        d=np.abs(node0-R[0]); 
        peak=R[0].max()
        above=R[0]>=peak+np.log(1e-6)
        print(G,scale,"root maxerr",np.abs(imp-ex).max(),"node0 maxerr",d.max(),"maxerr above 1e-6 peak",d[above].max(), "min(impl-exact)",(node0-R[0]).min(), f"t_impl={ti:.3f} t_or={to:.2f}")
