import numpy as np
from phyclone.utils.math import log_factorial
import phyclone.smc.utils as su
from phyclone.smc.samplers.conditional import ConditionalSMCSampler
from phyclone.smc.swarm import ParticleSwarm
from phyclone.smc.kernels.bootstrap import BootstrapProposalDistribution

def patch_A():
    orig=su.RootPermutationDistribution.log_count
    def log_count(tree, source=None):
        c=orig(tree,source)
        if source is None:
            c+=log_factorial(len(tree.outliers))
        return c
    su.RootPermutationDistribution.log_count=staticmethod(log_count)
    def log_pdf(tree): return -log_count(tree)
    su.RootPermutationDistribution.log_pdf=staticmethod(log_pdf)

def patch_B():
    def _init_swarm(self):
        self.swarm=ParticleSwarm()
        u=-np.log(self.num_particles)
        p0=self.constrained_path[1]
        self.swarm.add_particle(u+self._get_log_w(p0),p0)
        for _ in range(self.num_particles-1):
            p=self._propose_particle(None)
            self.swarm.add_particle(u+self._get_log_w(p),p)
        self.iteration+=1
    ConditionalSMCSampler._init_swarm=_init_swarm
    orig=ConditionalSMCSampler._resample_swarm
    def _resample_swarm(self):
        if self.iteration>=self.num_iterations: return
        return orig(self)
    ConditionalSMCSampler._resample_swarm=_resample_swarm

def patch_C():
    orig=BootstrapProposalDistribution.log_p
    def log_p(self, tree):
        if self.parent_particle is not None and len(self.parent_particle.tree_roots)==0:
            node=tree.labels[self.data_point.idx]
            if node==tree.outlier_node_name: return np.log(self.outlier_proposal_prob)
            return np.log(1-self.outlier_proposal_prob)
        return orig(self,tree)
    BootstrapProposalDistribution.log_p=log_p

def patch_D():
    import phyclone.mcmc.gibbs_mh as g
    from phyclone.utils.math import exp_normalize
    def sample_tree(self, tree):
        if tree.get_number_of_nodes() <= 1: return tree
        remaining_nodes, pruned_tree, subtree = self._get_subtree_and_pruned_tree(tree)
        if len(remaining_nodes)==0: return tree
        trees=self._create_sampled_trees_array(remaining_nodes,pruned_tree,subtree)
        log_p=np.array([self.tree_dist.log_p_one(x) for n,x in trees])
        p,_=exp_normalize(log_p)
        idx=self._rng.multinomial(1,p).argmax()
        return trees[idx][1]
    g.PruneRegraphSampler.sample_tree=sample_tree

def patch_E():
    import phyclone.mcmc.gibbs_mh as g
    def sample_tree(self, tree):
        tree_labels = tree.labels
        data_idxs = list(tree_labels.keys())
        self._rng.shuffle(data_idxs)
        for data_idx in data_idxs:
            old_node = tree_labels[data_idx]
            if old_node == tree.outlier_node_name or tree.get_data_len(old_node) > 1:
                tree = self._sample_tree(data_idx, tree, old_node)
                tree_labels = tree.labels
        return tree
    g.DataPointSampler.sample_tree=sample_tree
