import itertools, numpy as np
from phyclone.tree import Tree

def partitions(items):
    items=list(items)
    if not items: yield []; return
    first=items[0]
    for smaller in partitions(items[1:]):
        for n,subset in enumerate(smaller):
            yield smaller[:n]+[[first]+subset]+smaller[n+1:]
        yield [[first]]+smaller

def forests(k):
    """all parent arrays over k nodes; parent in {-1,0..k-1}, acyclic"""
    for par in itertools.product(range(-1,k),repeat=k):
        ok=True
        for i in range(k):
            seen=set(); j=i
            while j!=-1:
                if j in seen: ok=False;break
                seen.add(j); j=par[j]
            if not ok:break
        if ok: yield par

def build(grid, blocks, par, outliers):
    t=Tree(grid)
    k=len(blocks); children={i:[c for c in range(k) if par[c]==i] for i in range(k)}
    name={}
    def rec(i):
        for c in children[i]: rec(c)
        name[i]=t.create_root_node(children=[name[c] for c in children[i]], data=list(blocks[i]))
    for i in range(k):
        if par[i]==-1: rec(i)
    for o in outliers: t.add_data_point_to_outliers(o)
    return t

def all_trees(data, outliers_allowed):
    grid=data[0].grid_size
    n=len(data); seen={}
    subsets=[()] 
    if outliers_allowed:
        subsets=[c for r in range(n+1) for c in itertools.combinations(range(n),r)]
    for O in subsets:
        rest=[d for i,d in enumerate(data) if i not in O]
        outs=[data[i] for i in O]
        if not rest:
            t=build(grid,[],(),outs); seen[key(t)]=t; continue
        for blocks in partitions(rest):
            for par in forests(len(blocks)):
                t=build(grid,blocks,par,outs)
                seen.setdefault(key(t),t)
    return seen

def key(t):
    return (t.get_clades(), frozenset(d.idx for d in t.outliers))
