#!/venv/bin/python
"""writes seeded/INDEX.md from seeded/*/meta.json"""
import json, os, glob
rows = []
for d in sorted(glob.glob("/verif/seeded/C*-m*")):
    m = json.load(open(os.path.join(d, "meta.json")))
    name = os.path.basename(d)
    conf = m.get("independent_confirmation", {})
    runs = m.get("checks_run", {})
    caught = m.get("caught_by", [])
    first = ""
    for c in caught:
        v = runs[c].get("violations") or []
        if v:
            first = v[0].replace("violation: ", "")[:110]
            break
    rows.append((name, m.get("property"), (m.get("summary") or "")[:160].replace("\n", " ").replace("|", "/"), (m.get("what_it_needs_to_manifest") or "")[:200].replace("\n", " ").replace("|", "/"), "yes" if conf.get("confirmed") else "NO", ", ".join(caught) or "MISSED", first.replace("|", "/")))
with open("/verif/seeded/INDEX.md", "w") as f:
    f.write("# Seeded changes (independent sub-agent mutants)\n\n")
    f.write("Each directory holds `patch.diff` (applies to /repo HEAD with `git apply`), `demo.py` (the author's demonstration: exits non-zero with the change, 0 without; written for a worktree at /tmp/wt_<property>), and `meta.json` (what it breaks, what it needs to manifest, my independent confirmation in a scratch worktree: demo clean/patched, 85-test suite unchanged, and which checks were run against it).\n\n")
    f.write("| id | property | change | needs | confirmed | caught by (quick tier) | first violation line |\n|---|---|---|---|---|---|---|\n")
    for r in rows:
        f.write("| " + " | ".join(str(x) for x in r) + " |\n")
    own = sum(1 for r in rows if r[1] in r[5].split(", "))
    f.write("\n%d changes, %d confirmed, %d caught by at least one quick check, %d of them by the check of the property they were written against (the others are aliasing / incremental-update faults that the property's own oracle does not cover and C06/C07 do).\n" % (len(rows), sum(1 for r in rows if r[4] == "yes"), sum(1 for r in rows if r[5] != "MISSED"), own))
print(open("/verif/seeded/INDEX.md").read()[-300:])
