#!/venv/bin/python
"""Regenerates MANIFEST.json from the table below (keeps it valid and in sync with vp/checks)."""
import json, os
HERE = os.path.dirname(os.path.abspath(__file__))

CHECKS = {}  # filled by entries below

def add(pid, level, technique, text, note, design_ref):
    CHECKS[pid] = dict(
        property_id=pid,
        quick_cmd="./check %s --tier quick" % pid,
        thorough_cmd="./check %s --tier thorough" % pid,
        evidence_file="evidence/%s.json" % pid,
        replay_cmd_template="./check %s --replay {path}" % pid,
        engine="vp",
        level_claimed=dict(category=level, text=text, design_ref=design_ref),
        level_note=note,
        technique=technique,
    )

add("C09", "exploration",
    "property-based testing (Hypothesis-generated trees) with exact enumeration of every shuffle outcome vs brute-force linear extensions",
    "For each generated tree (<=7 data points) the sampler's exact law is enumerated and compared with the brute-forced set of compatible orders and -log|L|; bounded search, no absence proof.",
    "Trusts the EnumRNG outcome enumeration (self-checked: probabilities sum to 1) and the brute-force permutation filter (cross-checked against a closed form).",
    "DESIGN.md section 5 C09")

NOT_APPLICABLE = []

def main():
    props = [json.loads(l)["id"] for l in open(os.path.join(HERE, "properties.jsonl"))]
    na = [dict(property_id=p, reason="check not built yet (work in progress); no claim made") for p in props if p not in CHECKS]
    man = dict(
        version=1,
        setup_cmd="./setup.sh",
        hooks=dict(
            guard="PHYCLONE_VERIF",
            enable="no hooks: checks observe phyclone through public call sites, the injectable generator, __wrapped__ and harness-side monkeypatching; PHYCLONE_VERIF is declared only for the schema",
            baseline_off_cmd="cd /repo && /venv/bin/python -m pytest -ra -q -p no:cacheprovider --timeout=900 --continue-on-collection-errors",
            source_commits=[],
            add_only=True,
        ),
        engines=[
            dict(name="vp", path="vp/", serves_properties=sorted(CHECKS), kind_free_text="Hypothesis property-based testing driver (sharded over 16 processes) + exact outcome-enumerating RNG + independent reference models"),
        ],
        checks=[CHECKS[p] for p in sorted(CHECKS)],
        not_applicable=NOT_APPLICABLE + na,
        notes="See DESIGN.md. Known findings: known_findings.json. Seeded mutants: seeded/.",
    )
    with open(os.path.join(HERE, "MANIFEST.json"), "w") as f:
        json.dump(man, f, indent=1)
        f.write("\n")
    import jsonschema
    jsonschema.validate(man, json.load(open("/root/.vp/MANIFEST.schema.json")))
    print("MANIFEST.json ok: %d checks, %d not claimed" % (len(CHECKS), len(na)))

if __name__ == "__main__":
    main()
