#!/venv/bin/python
"""Regenerates MANIFEST.json from the table below (keeps it valid and in sync with vp/checks)."""
import json, os
HERE = os.path.dirname(os.path.abspath(__file__))

CHECKS = {}  # filled by entries below

def add(pid, level, technique, text, note, design_ref):
    CHECKS[pid] = dict(
        property_id=pid,
        quick_cmd="./check %s --tier quick" % pid,
        thorough_cmd="./check %s --tier thorough" % pid,
        evidence_file="evidence/%s.json" % pid,
        replay_cmd_template="./check %s --replay {path}" % pid,
        engine="vp",
        level_claimed=dict(category=level, text=text, design_ref=design_ref),
        level_note=note,
        technique=technique,
    )

add("C09", "exploration",
    "property-based testing (Hypothesis-generated trees) with exact enumeration of every shuffle outcome vs brute-force linear extensions",
    "For each generated tree (<=7 data points) the sampler's exact law is enumerated and compared with the brute-forced set of compatible orders and -log|L|; the order each sampler (burn-in, particle Gibbs) actually hands to its SMC pass is recorded at the SMC sampler's constructor and must be one of those orders; bounded search, no absence proof.",
    "Trusts the EnumRNG outcome enumeration (self-checked: probabilities sum to 1) and the brute-force permutation filter (cross-checked against a closed form).",
    "DESIGN.md section 5 C09")

add("C01", "exploration",
    "property-based testing (Hypothesis-generated data sets/configurations) with exact enumeration of all random outcomes: transition matrix K over all clone trees, oracle pi K = pi to 1e-9",
    "For each generated case the sampler's exact transition matrix over ALL clone trees (n<=4) is computed by enumerating every random outcome, so bias of 1e-9 is visible (tests: 3e-2); both wirings, pre-histories with the concentration changed in place on the same objects, and two run-loop iterations across a concentration update. Bounded by n<=4 and the number of generated cases; not an absence proof.",
    "Trusts EnumRNG (rows must sum to 1, self-checked) and numpy linear algebra; pi is the code's own log_p_one (C03 checks it).",
    "DESIGN.md section 5 C01")
add("C04", "exploration",
    "property-based testing with exact enumeration of all random outcomes per move (transition matrices over all clone trees; pi K = pi; sweep = product of component kernels)",
    "Each auxiliary move (data-point with/without outliers, prune-regraft, subtree inner kernel, subtree full move incl. its decomposition into selection x inner kernel and its support, run-loop sweep composition incl. a second sweep after a concentration update, and the run loop's sweep driven with pi-invariant stand-in updates on 243-2992 states) is checked separately by exact enumeration on generated data sets with n<=4. One known finding (F7) is listed in known_findings.json.",
    "Trusts EnumRNG and numpy; pi from the code's log_p_one; subtree-full for n>=3 is a recorded known finding, so new defects confined to that component and size are only caught through subtree-inner and n<=2.",
    "DESIGN.md section 5 C04")

add("C08", "exploration",
    "property-based testing: harness-enumerated placements vs reported proposal probabilities (normalisation, completeness), exact sampling law by outcome enumeration, weight telescoping identity along constrained paths",
    "For generated parent states (0-4 top-level clones, outliers, 3 kernels, perm on/off) the proposal must sum to 1 over the independently enumerated placements, be sampled exactly as reported, and the constrained-path weights must match densities recomputed on independently built partial trees and the model's order counts.",
    "Trusts EnumRNG, the harness' placement enumeration (count cross-checked against r + 2^r + outlier) and phyclone's joint density log_p (itself checked in C03).",
    "DESIGN.md section 5 C08")

add("C02", "exploration",
    "property-based testing against a reference model: brute-force sum == independent exact log-space DP (self-check), then an interval (bracket) oracle around the exact marginal with the statement's floor semantics, incl. FFT path",
    "Generated forests (any branching, 1-4 roots, dims 1-4, grids 2..1500 crossing the direct/FFT switch, extreme ranges) are compared entry-wise (root and every clone) with a bracket that collapses to floating-point agreement above the floor.",
    "Trusts scipy.logsumexp and the harness' own exact recursion (validated against the literal brute-force sum on small cases in the same run).",
    "DESIGN.md section 5 C02")
add("C03", "exploration",
    "property-based testing against a reference model (FS-CRP density written from the property text) plus metamorphic identity over build representations",
    "Both joint densities are compared (1e-8) with an independent model on generated trees/alpha/outlier priors; the same tree built 3 different ways must give identical values, ==, hash; different keys must be unequal.",
    "Trusts math.lgamma / scipy and the independent DP marginal of C02.",
    "DESIGN.md section 5 C03")

add("C06", "exploration",
    "model-based (stateful) property testing: generated edit programs in the samplers' grammar applied to the real Tree and a model; differential comparison with a from-scratch rebuild after every step",
    "After every applied step of every generated program (incl. real sampler invocations) each clone's cached vectors, the root vector and both joint densities must equal (1e-8) those of a tree rebuilt from the model.",
    "Trusts the model's bookkeeping of the expected shape (cross-checked against the tree in C07) and create_root_node post-order building as the 'fresh' reference (its values are checked against the independent DP in C02).",
    "DESIGN.md section 5 C06/C07")
add("C07", "exploration",
    "model-based (stateful) property testing: generated edit programs + sampler invocations; structural invariants and data conservation checked after every step against a model",
    "After every applied step: single parent, reachability, inverse index maps, payload names, consistent data views, no data under dead names, data multiset conserved, structure == model; every sampler returns a tree over exactly its input data.",
    "Reads internal fields (_graph, _node_indices, _node_indices_rev, _data) for the index-map invariants; preconditions of DESIGN.md section 4.",
    "DESIGN.md section 5 C06/C07")
add("C15", "exploration",
    "round-trip property testing inside generated edit histories (twin tree receives the same later edits) + generated run configurations with trace read-back and density recomputation",
    "(a) dict / pickle / gzip round-trips at random points of generated edit programs, twin compared after every later step; (b) generated run configurations: iteration list, completeness and log_p_one self-consistency of every trace entry.",
    "Node names are compared right after the round-trip only (relabel/graft renumber in traversal order); single chain in-process for (b).",
    "DESIGN.md section 5 C15")

add("C05", "exploration",
    "property-based testing against a reference model (PyClone mixture re-derived with scipy pmfs) through the file loader; metamorphic normalisation over all alternate counts; cluster-sum and outlier-term identities",
    "Generated input tables (counts incl. zero/extreme depth, copy numbers, tumour content, error rates, both densities, precision, grid, clustering) are loaded from disk and every grid entry compared (1e-8 / 1e-6 relative) with an independent model; normalisation tables must sum to 1. The run command's handling of the outlier/loss-probability options is observed in front of the chains (chain function replaced by a recorder): documented no-op options must not change the prior terms, user-provided cluster priors are taken as given, all chains get the same data and setting.",
    "Trusts scipy.stats binom/betabinom and logsumexp; reads grids at load_data's output.",
    "DESIGN.md section 5 C05")
add("C17", "exploration",
    "property-based testing against a pure-Python model of the documented filter + metamorphic relations (row permutation, TSV vs CSV, defaults vs explicit columns)",
    "Generated tables with missing/duplicated/zero-copy-number cells, string or integer ids, optional columns and clustering: kept set, numbering, sample order and values must match the model, be independent of row order and separator, and major<minor on a kept row must raise.",
    "The two exclusions stated in the property are removed by construction (counted in evidence).",
    "DESIGN.md section 5 C17")

add("C10", "exploration",
    "property-based testing against brute-force / independent max-plus DP optimum plus feasibility predicates (validity predicate, ties allowed)",
    "Generated trees (incl. empty clones, 1-4 roots), dims 1-3, grids 2-101, tie-heavy and continuous data: every reported CCF must lie on the grid, satisfy the sum constraints, reach the brute-force maximum (value compared) and give non-negative clonal prevalences.",
    "Brute force for G^K <= 20000, otherwise a harness DP that is cross-checked against the brute force on the small cases of the same run.",
    "DESIGN.md section 5 C10")
add("C13", "exploration",
    "property-based testing with a recording/scripted generator: parameters of every draw compared with the target density's closed form; numerical 2-D quadrature of the implemented kernel against the conditional posterior; call-site check with a stub sampler",
    "Every draw's distribution parameters (Beta, Bernoulli weight, Gamma shape/rate) are checked for generated (a, b, alpha, K, n, eta); the implemented kernel is integrated numerically against p(alpha|K,n) for several (a,b,K,n); the run loop's K, n extraction and propagation of the new value are checked on generated trees with outliers, and inside run._run_main_sampler with scripted moves (the update must see the tree the sweep ends with).",
    "Observation point is Generator.beta/binomial/standard_gamma (reached by scipy .rvs(random_state=rng)); quadrature by scipy.integrate.quad.",
    "DESIGN.md section 5 C13")
add("C14", "exploration",
    "differential property testing over generated call histories: every memoised call is shadowed by its unmemoised __wrapped__ original and compared at call time; cache hits measured",
    "Generated histories of sampler sweeps, relabels, concentration changes with/without cache clears, kernel switches and direct call streams; each memoised result (arrays, proposal distributions, cached new-clone trees) must equal the unmemoised computation at that moment.",
    "Relies on __wrapped__ exposing the undecorated function; harness-side monkeypatching of the module attributes the samplers call through.",
    "DESIGN.md section 5 C14")

add("C11", "exploration",
    "property-based testing of the summary commands (through the CLI) on generated synthetic traces against a harness-side grouping model",
    "Generated multi-chain traces with repeated/relabelled/re-serialised copies of the same trees and score ties: MAP (both modes), topology report rows/counts/scores/pointers/ranking and archive membership+content are compared with a grouping by (clades, outliers) computed on the models.",
    "Outputs are decoded from the table + Newick files by the harness' own parser; log_p_one values are synthetic (the commands only read them).",
    "DESIGN.md section 5 C11")
add("C12", "exploration",
    "property-based testing of every results table (map, consensus, topology archive) on generated traces incl. corner trees, against validity predicates and the C10 optimum oracle",
    "Coverage (each mutation x sample once), clone ids within the Newick tree or -1, cluster cohesion and ids, outlier rows -1, CCFs on grid / feasible / optimal on the decoded tree, clonal prevalence by subtraction, and completion of all commands incl. all-outlier trees.",
    "Harness-side Newick parser and table decoder; optimum by the independent max-plus DP of C10.",
    "DESIGN.md section 5 C12")
add("C16", "exploration",
    "property-based testing of the consensus command against set-algebra majority clades on generated tree families (local-edit variants and a structured family built to reach union-of-subclades clades)",
    "Supports are computed on the models for both weighting modes; the decoded consensus tree's clade family must equal {clade: support > threshold} exactly, uncovered points must be outliers, no exception.",
    "Thresholds within 1e-6 of a support value are nudged away (counted).",
    "DESIGN.md section 5 C16")
add("C18", "exploration",
    "differential testing of whole `phyclone run` processes under generated perturbations (hash seed, CPU affinity, per-chain delays reversing completion order)",
    "Weakest claim: OS schedules are perturbed, not enumerated. Each generated configuration (six strata: small multi-chain, clustered heavy, sub-tree updates on branching data, 10-14 clone trees with several prune-regraph moves per sweep, --assign-loss-prob with tied truncal clusters) is run 4 times in fresh interpreters; per-chain traces (trees incl. labels, alpha, log_p_one as hex floats) must be identical.",
    "Delay wrapper installed by the re-imported main module in spawn workers; `random` hash seed and reversed completion orders are observed in the run logs and reported.",
    "DESIGN.md section 5 C18")
add("C19", "exploration",
    "property-based robustness testing over the CLI option cross-product with forced boundary values; exception bucketing by innermost phyclone frame; per-entry structural/finite checks",
    "Generated valid data sets (synthetic grids, PyClone tables through phyclone.run.run, and the click CLI) x boundary-forcing option values, plus injected rare-but-real random outcomes (a gamma draw of exactly 0.0) and a 1001-point grid stratum: the run must finish and every trace entry must be a well-formed complete tree with finite log_p_one.",
    "Single chain in-process; grid size 11.",
    "DESIGN.md section 5 C19")
add("C20", "fault_enumeration",
    "fault injection by exhaustive enumeration of every byte prefix of generated trace files, differential oracle against the complete file's outputs",
    "For every generated trace (synthetic and real) every prefix length of the SAME path that was summarised when complete is fed to all 5 summary command variants; each must fail, or - only when nothing but the gzip trailer is missing - reproduce the complete file's outputs exactly. In addition a real 2-chain run is crashed (ENOSPC) inside its final trace write and whatever is left at the output path is summarised.",
    "Assumes an interrupted write / truncation leaves a byte prefix of the file (single sequential gzip stream).",
    "DESIGN.md section 5 C20")

NOT_APPLICABLE = []

def main():
    props = [json.loads(l)["id"] for l in open(os.path.join(HERE, "properties.jsonl"))]
    na = [dict(property_id=p, reason="check not built yet (work in progress); no claim made") for p in props if p not in CHECKS]
    assert not na, na
    man = dict(
        version=1,
        setup_cmd="./setup.sh",
        hooks=dict(
            guard="PHYCLONE_VERIF",
            enable="no hooks: checks observe phyclone through public call sites, the injectable generator, __wrapped__ and harness-side monkeypatching; PHYCLONE_VERIF is declared only for the schema",
            baseline_off_cmd="cd /repo && /venv/bin/python -m pytest -ra -q -p no:cacheprovider --timeout=900 --continue-on-collection-errors",
            source_commits=[],
            add_only=True,
        ),
        engines=[
            dict(name="vp", path="vp/", serves_properties=sorted(CHECKS), kind_free_text="Hypothesis property-based testing driver (sharded over 16 processes) + exact outcome-enumerating RNG + independent reference models"),
        ],
        checks=[CHECKS[p] for p in sorted(CHECKS)],
        not_applicable=NOT_APPLICABLE + na,
        notes="See DESIGN.md. Known findings: known_findings.json. Seeded mutants: seeded/.",
    )
    with open(os.path.join(HERE, "MANIFEST.json"), "w") as f:
        json.dump(man, f, indent=1)
        f.write("\n")
    import jsonschema
    jsonschema.validate(man, json.load(open("/root/.vp/MANIFEST.schema.json")))
    print("MANIFEST.json ok: %d checks, %d not claimed" % (len(CHECKS), len(na)))

if __name__ == "__main__":
    main()
