#!/bin/bash
# usage: tools_mutant.sh <file-in-repo> <python-regex-old> <new> -- <check ids...>
# applies a one-off textual mutation to /repo, runs the checks, reverts. For development only.
f="$1"; old="$2"; new="$3"; shift 4
cd /repo || exit 2
if ! git diff --quiet; then echo "repo dirty"; exit 2; fi
/venv/bin/python - "$f" "$old" "$new" <<'PY'
import sys,re
f,old,new=sys.argv[1:4]
s=open(f).read()
assert old in s, "pattern not found"
open(f,'w').write(s.replace(old,new,1))
PY
[ $? -eq 0 ] || { git checkout -- .; exit 2; }
cd /verif
for c in "$@"; do VERIF_NOEVIDENCE=1 ./check $c 2>&1 | grep -E "^(violation|VIOLATION|HARNESS|C[0-9]+ tier)" | cut -c1-250; done
cd /repo && git checkout -- .
