#!/bin/bash
# Offline setup: make sure hypothesis is importable by /venv/bin/python (the interpreter that has phyclone).
set -e
cd "$(dirname "$0")"
if ! /venv/bin/python -c "import hypothesis" 2>/dev/null; then
  /venv/bin/pip install --no-index --find-links /opt/veriftools/wheels hypothesis
fi
mkdir -p .scratch evidence
/venv/bin/python -c "import hypothesis, numpy, scipy; print('hypothesis', hypothesis.__version__)"
