#!/venv/bin/python
"""Development tool: confirm a seeded change (sub-agent mutant) independently and run the checks against it.

  tools_seeded.py verify <src_out_dir> <K> <name> <property>   # scratch worktree: demo passes clean / fails patched, suite still 85 passed
  tools_seeded.py detect <name> [checks...]                   # run checks with VERIF_REPO=<scratch worktree with the patch>

Results are stored under /verif/seeded/<name>/ (patch.diff, demo.py, meta.json incl. what was run).
Nothing here touches /repo's working tree: every step uses its own `git worktree` under /tmp, removed afterwards.
"""
import json
import os
import re
import shutil
import subprocess
import sys

VERIF = os.path.dirname(os.path.abspath(__file__))
BASELINE_FAIL = {
    "phyclone/tests/test_proposal_caching.py::FullyAdaptedTest::test_no_parent_tree_or_particle",
    "phyclone/tests/test_proposal_caching.py::SemiAdaptedTest::test_no_parent_tree_or_particle",
}


def sh(cmd, cwd=None, env=None, timeout=3600):
    p = subprocess.run(cmd, shell=True, cwd=cwd, env=env, stdout=subprocess.PIPE, stderr=subprocess.STDOUT, text=True, timeout=timeout)
    return p.returncode, p.stdout


def worktree(name):
    wt = "/tmp/vwt_%s" % name
    if os.path.exists(wt):
        sh("git -C /repo worktree remove --force %s" % wt)
    rc, out = sh("git -C /repo worktree add -q --detach %s HEAD" % wt)
    if rc != 0:
        raise SystemExit("cannot create worktree: " + out)
    return wt


def drop(wt):
    sh("git -C /repo worktree remove --force %s" % wt)
    shutil.rmtree(wt, ignore_errors=True)


def verify(src, k, name, prop):
    dst = os.path.join(VERIF, "seeded", name)
    os.makedirs(dst, exist_ok=True)
    patch = os.path.join(src, "patch%s.diff" % k)
    demo = os.path.join(src, "demo%s.py" % k)
    meta = os.path.join(src, "meta%s.json" % k)
    for f in (patch, demo):
        if not os.path.exists(f):
            raise SystemExit("missing " + f)
    wt = worktree(name)
    env = dict(os.environ, PYTHONPATH=wt, PYTHONDONTWRITEBYTECODE="1", PYTHONHASHSEED="0")
    res = dict(name=name, property=prop)
    try:
        os.makedirs(os.path.join(wt, "_out"), exist_ok=True)
        shutil.copy(demo, os.path.join(wt, "_out", "demo%s.py" % k))
        helpers = [f for f in os.listdir(src) if f.endswith(".py") and not f.startswith("demo") and not f.startswith("explore") and not f.startswith("harness_dev")]
        for f in helpers:  # helper modules a demo imports from its own directory
            shutil.copy(os.path.join(src, f), os.path.join(wt, "_out", f))
            shutil.copy(os.path.join(src, f), os.path.join(dst, f))
        # demos may hard-code their original worktree path: point the copies at this scratch worktree
        for f in os.listdir(os.path.join(wt, "_out")):
            if f.endswith(".py"):
                fp = os.path.join(wt, "_out", f)
                txt = open(fp).read()
                txt2 = re.sub(r"/tmp/wt_C\d+", wt, txt)
                if txt2 != txt:
                    open(fp, "w").write(txt2)
        rc0, out0 = sh("/venv/bin/python _out/demo%s.py" % k, cwd=wt, env=env, timeout=900)
        res["demo_clean_rc"] = rc0
        rc, out = sh("git apply %s" % patch, cwd=wt)
        if rc != 0:
            res["error"] = "patch does not apply: " + out[-300:]
            return res
        rc1, out1 = sh("/venv/bin/python _out/demo%s.py" % k, cwd=wt, env=env, timeout=900)
        res["demo_patched_rc"] = rc1
        res["demo_patched_tail"] = out1[-400:]
        rct, outt = sh("/venv/bin/python -m pytest -q -p no:cacheprovider --timeout=900 --continue-on-collection-errors phyclone/tests 2>&1 | tail -15", cwd=wt, env=env, timeout=3600)
        m = re.search(r"(\d+) passed", outt)
        failed = set(re.findall(r"FAILED (\S+)", outt))
        res["suite_passed"] = int(m.group(1)) if m else None
        res["suite_failed"] = sorted(failed)
        res["suite_ok"] = bool(m and int(m.group(1)) == 85 and failed == BASELINE_FAIL)
        rcs, outs = sh("git diff --stat", cwd=wt)
        res["diffstat"] = outs.strip().splitlines()[-1] if outs.strip() else ""
        res["confirmed"] = bool(rc0 == 0 and rc1 != 0 and res["suite_ok"])
    finally:
        drop(wt)
    shutil.copy(patch, os.path.join(dst, "patch.diff"))
    shutil.copy(demo, os.path.join(dst, "demo.py"))
    m = {}
    if os.path.exists(meta):
        try:
            m = json.load(open(meta))
        except Exception:
            m = {"raw": open(meta).read()[:2000]}
    m["property"] = prop
    m["independent_confirmation"] = res
    json.dump(m, open(os.path.join(dst, "meta.json"), "w"), indent=1)
    return res


def detect(name, checks):
    dst = os.path.join(VERIF, "seeded", name)
    patch = os.path.join(dst, "patch.diff")
    wt = worktree(name + "_d")
    out_all = {}
    try:
        rc, out = sh("git apply %s" % patch, cwd=wt)
        if rc != 0:
            raise SystemExit("patch does not apply")
        for c in checks:
            env = dict(os.environ, VERIF_REPO=wt, VERIF_NOEVIDENCE="1", VERIF_SEED=os.environ.get("VERIF_SEED", "1"))
            rc, out = sh("./check %s --tier %s" % (c, os.environ.get("TIER", "quick")), cwd=VERIF, env=env, timeout=7200)
            viol = [l for l in out.splitlines() if l.startswith("violation:")]
            out_all[c] = dict(rc=rc, violations=[v[:300] for v in viol][:6], harness=[l[:300] for l in out.splitlines() if l.startswith("HARNESS")][:2])
    finally:
        drop(wt)
    mp = os.path.join(dst, "meta.json")
    m = json.load(open(mp))
    m.setdefault("checks_run", {}).update(out_all)
    m["caught_by"] = sorted(c for c, r in m["checks_run"].items() if r["rc"] == 1)
    json.dump(m, open(mp, "w"), indent=1)
    return out_all


if __name__ == "__main__":
    if sys.argv[1] == "verify":
        r = verify(sys.argv[2], sys.argv[3], sys.argv[4], sys.argv[5])
        print(json.dumps(r, indent=1))
    elif sys.argv[1] == "detect":
        r = detect(sys.argv[2], sys.argv[3:])
        for c, v in r.items():
            print(c, "rc=%d" % v["rc"], (v["violations"] or v["harness"] or [""])[0][:200])
